"""vk - runtime-monitoring framework for ipc-lab/kaira (see /verif/DESIGN.md)."""
