"""C03 - the (n, k, d) and structure a code object advertises are its true parameters."""
from __future__ import annotations

from math import comb

from vk.oracles import gf2, gf2m
from vk.workloads import catalogue as cat

PROPERTY = "C03"
RULE = (
    "structured families of the catalogue (Hamming, Golay, repetition, SPC, Reed-Muller, cyclic: every divisor of X^n+1, named codes, BCH: every accepted design distance, "
    "RS-style) x information sets; the code is the row space of the encoder's *observed* outputs on a basis; true d by enumeration (k<=20) or MacWilliams on the "
    "reference-computed dual (n-k<=20). Distinct = code object; non-trivial = object constructed and at least one advertised quantity compared with a computed one."
    " Added after the seeded-fault rounds: textbook BCH codes over GF(32)/GF(64) in the quick tier, index-list information sets, units grouped by family and (n,k)."
    " Round 5: form axis of the catalogue; cyclic siblings - one generator polynomial at lengths n, 2n, 3n built in one process, shortest first and longest first, every object judged on its own."
)
ASSUMPTIONS = [
    "exact-vs-lower-bound reading of an advertised distance follows the class docstring (Hamming 3/4, Golay 7/8, repetition n, SPC 2, RM 2^(m-r) exact; cyclic exact for k<=12; BCH/RS >= delta)",
    "cyclic closure/divisibility judged only for 'left'/'right' layouts, in natural or reversed coefficient order",
    "codes with k>20 and n-k>20 have their distance clause skipped (counted)",
]
REQUIRED = ["d_true>=advertised", "rate=k/n", "(n,k) match family formula", "cyclic:shift-closed", "cyclic:multiples of g", "g divides X^n+1", "perfect:sphere-packing equality"]
JOBS = {"quick": 4, "thorough": 16}
TIMEOUT = {"quick": 900, "thorough": 3600}
FAMILIES = ("hamming", "golay", "repetition", "spc", "rm", "cyclic", "cyclic_std", "bch", "rs")


def units(tier, seed):
    out = []
    for spec in cat.catalogue(tier, seed):
        if spec["family"] not in FAMILIES:
            continue
        if spec["family"] == "cyclic" and spec["src"] != "g" and tier == "quick" and spec["n"] > 9:
            continue
        cost = 1
        if spec["family"] in ("bch", "rs"):
            cost = 2 ** spec["mu"] / 2
        if spec["family"] in ("golay",):
            cost = 6
        if spec["family"] == "cyclic":
            cost = 1 + 2 ** max(0, spec["n"] - 12)
        out.append({"unit": f"{spec['family']}#{spec['id']}", "spec": spec, "cost": cost, "group": "%s:%d:%d" % ((spec["family"],) + tuple(cat.nk(spec)))})
    # the same generator polynomial at several lengths (g | X^n+1 implies g | X^(jn)+1), built one after the other in
    # one process, shortest first and longest first: what one object reports must not depend on its relatives
    for n0 in (3, 5, 7, 9) if tier == "quick" else (3, 5, 6, 7, 9, 10):
        out.append({"unit": f"cyclic-siblings-n{n0}", "kind": "siblings", "n0": n0, "cost": 4})
    return out


def _adv_distance(enc):
    md = getattr(enc, "minimum_distance", None)
    if md is None:
        return None
    try:
        return int(md() if callable(md) else md)
    except Exception:  # noqa: BLE001
        return None


def _rev(v, n):
    r = 0
    for j in range(n):
        if (v >> j) & 1:
            r |= 1 << (n - 1 - j)
    return r


def run_unit(ctx, u):
    import torch

    if u.get("kind") == "siblings":
        n0 = u["n0"]
        nid = 200000 + 1000 * n0
        for g in cat.divisors_of_xn1(n0):
            if not (1 <= gf2m.deg(g) < n0):
                continue
            lengths = [L for L in (n0, 2 * n0, 3 * n0) if L <= 27]
            for order in (lengths + lengths[:1], lengths[::-1] + lengths[-1:]):
                for L in order:
                    nid += 1
                    info = "left" if nid % 2 else "right"
                    sp = {"family": "cyclic", "n": L, "g": g, "h": cat.pdivmod((1 << L) | 1, g)[0], "src": "g", "info": info, "info_kind": info, "id": nid}
                    run_unit(ctx, {"unit": u["unit"], "spec": sp})
        return
    spec = u["spec"]
    f = spec["family"]
    nm = cat.name(spec)
    try:
        enc = cat.build(spec)
    except Exception as e:  # noqa: BLE001
        if f == "bch" and "Bose" in str(e) and not spec.get("must_construct"):
            ctx.skip("bch delta rejected as non-Bose")
            return
        ctx.violation(f"{nm}|constructible|raised:{type(e).__name__}", spec=spec, error=str(e)[:300])
        return
    n, k = int(enc.code_length), int(enc.code_dimension)
    ctx.case("object", spec["id"])

    # ---- (n,k) and rate against the family's documented formula
    exp = None
    if f == "hamming":
        mu = spec["mu"]
        exp = (2**mu - (0 if spec["extended"] else 1), 2**mu - mu - 1)
    elif f == "golay":
        exp = (24 if spec["extended"] else 23, 12)
    elif f == "repetition":
        exp = (spec["n"], 1)
    elif f == "spc":
        exp = (spec["k"] + 1, spec["k"])
    elif f == "rm":
        exp = (2 ** spec["m"], sum(comb(spec["m"], i) for i in range(spec["r"] + 1)))
    elif f == "cyclic":
        exp = (spec["n"], spec["n"] - gf2m.deg(spec["g"]))
    elif f == "bch":
        nn = 2 ** spec["mu"] - 1
        cos = set()
        for e in range(1, spec["delta"]):
            cos.update(gf2m.cyclotomic_coset(e, nn))
        exp = (nn, nn - len(cos))
    elif f == "rs":
        nn = 2 ** spec["mu"] - 1
        exp = (nn, nn - (spec["delta"] - 1))
    if exp is not None:
        ctx.check((n, k) == exp, "(n,k) match family formula", f"{nm}|(n,k) match family formula|differs", spec=spec, advertised=[n, k], expected=list(exp))
    ctx.check(abs(float(enc.code_rate) - k / n) < 1e-12 and int(enc.redundancy) == n - k, "rate=k/n", f"{nm}|rate=k/n|differs", spec=spec, rate=float(enc.code_rate), n=n, k=k)

    # ---- the code actually produced
    basis_t = enc(torch.eye(k))
    if tuple(basis_t.shape) != (k, n):
        ctx.violation(f"{nm}|encode:shape|wrong", spec=spec, shape=list(basis_t.shape))
        return
    basis = cat.rows_to_ints(basis_t)
    rb, piv = gf2.rref(basis)
    ctx.check(len(rb) == k, "dimension of produced code = k", f"{nm}|dimension of produced code = k|deficient", spec=spec, rank=len(rb), k=k)

    # ---- true minimum distance
    d_true = None
    if len(rb) <= 20 or n - len(rb) <= 20:
        d_true = gf2.min_distance(rb, n)
    else:
        ctx.skip("distance not computable within bounds (k>20 and n-k>20)")
    adv = _adv_distance(enc)
    exact = None
    if f == "hamming":
        exact = 4 if spec["extended"] else 3
        if spec["mu"] == 2 and not spec["extended"]:
            exact = 3
    elif f == "golay":
        exact = 8 if spec["extended"] else 7
    elif f == "repetition":
        exact = n
        adv = adv if adv is not None else n  # documented family value
    elif f == "spc":
        exact = 2
    elif f == "rm":
        exact = 2 ** (spec["m"] - spec["r"])
    if d_true is not None:
        if exact is not None:
            ctx.check(adv == exact, "advertised d = documented family value", f"{nm}|advertised d = documented family value|differs", spec=spec, advertised=adv, documented=exact)
            ctx.check(d_true == exact, "d_true=documented exact", f"{nm}|d_true=documented exact|true_d{'<' if d_true < exact else '>'}documented", spec=spec, d_true=d_true, documented=exact, n=n, k=k)
        if adv is not None:
            nmd = nm + (",k>12" if k > 12 else ",k<=12") if f in ("cyclic", "cyclic_std") else nm
            ctx.check(d_true >= adv, "d_true>=advertised", f"{nmd}|d_true>=advertised|true_d<advertised", spec=spec, d_true=d_true, advertised=adv, n=n, k=k)
            if f in ("cyclic", "cyclic_std") and k <= 12:
                ctx.check(d_true == adv, "cyclic:minimum_distance() exact for k<=12", f"{nm}|cyclic:minimum_distance() exact for k<=12|differs", spec=spec, d_true=d_true, advertised=adv)
        if f in ("bch", "rs"):
            delta = int(enc.delta)
            t_adv = int(enc.error_correction_capability)
            ctx.check(d_true >= delta, "d_true>=delta", f"{nm}|d_true>=delta|true_d<delta", spec=spec, d_true=d_true, delta=delta, n=n, k=k)
            ctx.check(t_adv == (delta - 1) // 2 and t_adv <= (d_true - 1) // 2, "t_advertised attainable", f"{nm}|t_advertised attainable|exceeds floor((d-1)/2)", spec=spec, t_adv=t_adv, d_true=d_true)
        if f == "golay":
            t_adv = int(enc.error_correction_capability)
            ctx.check(t_adv <= (d_true - 1) // 2, "t_advertised attainable", f"{nm}|t_advertised attainable|exceeds floor((d-1)/2)", spec=spec, t_adv=t_adv, d_true=d_true)
        # perfect codes
        if (f == "hamming" and not spec["extended"]) or (f == "golay" and not spec["extended"]):
            t = (d_true - 1) // 2
            lhs = sum(comb(n, i) for i in range(t + 1)) * 2**k
            ctx.check(lhs == 2**n, "perfect:sphere-packing equality", f"{nm}|perfect:sphere-packing equality|strict", spec=spec, t=t, lhs=lhs, rhs=2**n)

    # ---- cyclic structure
    if f in ("cyclic", "cyclic_std", "bch") and spec["info"] in ("left", "right"):
        mask = (1 << n) - 1
        shifted_ok = all(gf2.in_span(rb, piv, ((c << 1) & mask) | (c >> (n - 1))) for c in basis)
        ctx.check(shifted_ok, "cyclic:shift-closed", f"{nm}|cyclic:shift-closed|not closed", spec=spec, n=n, k=k)
        g = int(enc.generator_poly.value)
        h = int(enc.check_poly.value)
        xn1 = (1 << n) | 1
        ctx.check(gf2m.pmod(xn1, g) == 0, "g divides X^n+1", f"{nm}|g divides X^n+1|remainder", spec=spec, g=g)
        ctx.check(gf2m.pmul(g, h) == xn1, "g*h=X^n+1", f"{nm}|g*h=X^n+1|differs", spec=spec, g=g, h=h)
        nat = all(gf2m.pmod(c, g) == 0 for c in basis)
        rev = all(gf2m.pmod(_rev(c, n), g) == 0 for c in basis)
        ctx.check((nat or rev) and gf2m.deg(g) == n - k, "cyclic:multiples of g", f"{nm}|cyclic:multiples of g|not multiples", spec=spec, g=g, natural=nat, reversed=rev)
        if f == "cyclic":
            ctx.check(g == spec["g"], "published g = requested g", f"{nm}|published g = requested g|differs", spec=spec, g=g)
        if f == "bch":
            mod = int(enc._field.modulus.value) if hasattr(enc, "_field") else gf2m.PRIMITIVE[spec["mu"]]
            if gf2m.is_primitive(mod):
                gref = gf2m.bch_generator(spec["mu"], spec["delta"], mod)
                ctx.check(g == gref, "bch:g = lcm of minimal polynomials", f"{nm}|bch:g = lcm of minimal polynomials|differs", spec=spec, g=g, reference=gref)
            else:
                ctx.skip("field modulus not primitive (C18's finding) - BCH generator reference not applicable")
    if spec["id"] % 25 == 0:
        ctx.sample({"spec": spec, "n": n, "k": k, "d_true": d_true, "advertised_d": adv, "documented_exact": exact})
