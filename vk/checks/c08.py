"""C08 - power, amplitude and PAPR constraints enforce their limit on every batch item."""
from __future__ import annotations

import hashlib
import math
import random

PROPERTY = "C08"
RULE = (
    "Total / Average / PerAntenna / PeakAmplitude / PAPR / Composite / create_ofdm_constraints / create_mimo_constraints / apply_constraint_chain / combine_constraints x targets "
    "1e-3..1e3 x real/complex x shapes (N,), (1,N), (B,N), (B,A,N), (B,A,H,W) x signal families {Gaussian, uniform, OFDM-like, heavy-tailed, constant, sign-alternating, one-sided negative, negative spikes} x input "
    "scales 1e-2..1e4 x random chains of 2-4 constraints. Per item (index along dim 0 when batched, else the whole tensor): power law, positive real scaling, idempotence, scale "
    "invariance, peak / PAPR bounds, composite = sequential application. Distinct = (constraint configuration, signal family, shape, scale, seed); non-trivial = non-zero item."
    " Added after the seeded-fault rounds: batch-of-1 3-D/4-D layouts, one-sided negative and negative-spike signals, integer-valued int16/int32/int64/float64 inputs, constraints built through ConstraintRegistry.create as a sequence of different values compared with direct construction."
    " Round 5: one long-lived object per class (Total, Average, Peak, PAPR, PerAntenna with uniform_power and with power_budget) across inputs of changing rank / complexity and with its public setting re-assigned in between = a fresh object built with the current setting."
)
ASSUMPTIONS = [
    "non-negligible power: input mean power >= 1e-4 (the library adds 1e-8 to its denominators); zero / negligible items are exempt from ratio and equality clauses",
    "PAPR 'attainable by clipping': at least a quarter of the samples within 20 dB of the peak, as the property states",
    "factory composites are driven with jointly attainable limits in two regimes: 'loose' peak_amplitude = 1.05*sqrt(max_papr*total_power/N) (implied by the other two limits) and 'tight' peak_amplitude = 1.05*sqrt(total_power/N) (attainable by a constant-envelope signal)",
    "PeakAmplitudeConstraint on complex input raises (clamp unsupported): recorded as rejected",
    "MIMO composites are judged on upper bounds (PAPR clipping legitimately lowers power)",
]
REQUIRED = ["power:never above target", "power:equal within 0.1%", "positive real scaling", "idempotent", "scale invariant", "peak amplitude bound", "PAPR bound", "composite = sequential", "factory composites satisfy all limits", "long-lived object = fresh object"]
JOBS = {"quick": 8, "thorough": 16}
TIMEOUT = {"quick": 900, "thorough": 3600}
FAMILIES = ["gaussian", "uniform", "ofdm", "heavy", "constant", "alternating", "negative", "neg_spike"]


def units(tier, seed):
    out = []
    out_extra = [{"unit": "registry-path", "kind": "registry", "rep": 0, "cost": 2}, {"unit": "long-lived-objects", "kind": "longlived", "rep": 0, "cost": 2}]
    for name in ("total", "average", "perantenna", "peak", "papr", "composite", "ofdm_factory", "mimo_factory"):
        reps = 1 if tier == "quick" else 6
        for r in range(reps):
            out.append({"unit": f"{name}#{r}", "kind": name, "rep": r, "cost": 6 if name in ("papr", "composite", "ofdm_factory", "mimo_factory") else 2})
    return out + out_extra


def seed_for(*parts):
    return int(hashlib.blake2b(repr(parts).encode(), digest_size=6).hexdigest(), 16)


def signal(family, shape, cplx, scale, g):
    import torch

    n = int(torch.tensor(shape).prod())

    def base():
        if family == "gaussian":
            return torch.randn(shape, generator=g)
        if family == "uniform":
            return torch.rand(shape, generator=g) * 2 - 1
        if family == "heavy":
            return torch.randn(shape, generator=g) ** 3
        if family == "constant":
            return torch.ones(shape) * 0.7
        if family == "alternating":
            return (1 - 2 * (torch.arange(n) % 2).float()).reshape(shape)
        if family == "ofdm":
            ph = torch.rand(shape, generator=g) * 2 * math.pi
            return torch.fft.ifft(torch.polar(torch.ones(shape), ph), dim=-1).real * math.sqrt(shape[-1])
        if family == "negative":  # one-sided: every sample negative (largest *signed* value is the smallest magnitude)
            return -(torch.rand(shape, generator=g) + 0.2)
        if family == "neg_spike":  # small positive samples and isolated large negative spikes
            t = torch.rand(shape, generator=g) * 0.1
            flat = t.reshape(-1)
            flat[:: max(3, n // 5)] = -(1.0 + torch.rand(flat[:: max(3, n // 5)].shape, generator=g))
            return flat.reshape(shape)
        raise ValueError(family)

    x = base()
    if cplx:
        if family == "ofdm":
            ph = torch.rand(shape, generator=g) * 2 * math.pi
            x = torch.fft.ifft(torch.polar(torch.ones(shape), ph), dim=-1) * math.sqrt(shape[-1])
        else:
            x = torch.complex(x, base() if family not in ("constant", "alternating") else x * 0.5)
    return x * scale


def items(x):
    """per-item views according to the library's convention."""
    if x.dim() > 1 and x.shape[0] > 1:
        return [x[i] for i in range(x.shape[0])]
    return [x]


def power(t, kind):
    import torch

    p = (t.abs() ** 2).double()
    return float(p.sum()) if kind == "total" else float(p.mean())


def papr_of(t):
    p = (t.abs() ** 2).double()
    m = float(p.mean())
    return float(p.max()) / m if m > 0 else float("inf")


def ratio_ok(xi, yi):
    """y is a positive real multiple of x."""
    import torch

    nz = xi.abs() > 1e-6 * xi.abs().max()
    if not bool(nz.any()):
        return True
    r = (yi[nz] / xi[nz])
    r = r if torch.is_complex(r) else torch.complex(r, torch.zeros_like(r))
    c = r.flatten()[0]
    return bool(c.real > 0) and bool(abs(c.imag) <= 1e-4 * abs(c.real)) and bool(((r - c).abs() <= 1e-4 * abs(c)).all())


def run_unit(ctx, u):
    import torch

    from kaira import constraints as K
    from kaira.constraints.utils import apply_constraint_chain, combine_constraints, create_mimo_constraints, create_ofdm_constraints, measure_signal_properties

    kind = u["kind"]
    q = ctx.tier == "quick"
    rng = random.Random(f"c08-{ctx.seed}-{u['unit']}")
    g = torch.Generator().manual_seed(seed_for("c08", ctx.seed, u["unit"]))
    shapes = [(64,), (1, 64), (5, 64), (3, 4, 32), (2, 3, 4, 8), (1, 4, 16), (1, 3, 4, 4)]
    targets = [1e-3, 0.1, 1.0, 7.0, 1e3]
    scales = [1e-2, 1.0, 30.0, 1e4]
    ncase = 0

    def cases(shapes_=shapes, cplx_opts=(False, True)):
        for shape in shapes_:
            for cplx in cplx_opts:
                for fam in FAMILIES:
                    for sc in (scales if not q else rng.sample(scales, 2)):
                        yield shape, cplx, fam, sc, signal(fam, shape, cplx, sc, g)

    def lay(shape):
        if shape[0] == 1 and len(shape) > 1:
            return "batch-of-1" if len(shape) == 2 else f"batch-of-1,{len(shape)}-D"
        return {1: "1-D", 2: "(B,N)", 3: "(B,A,N)", 4: "(B,A,H,W)"}[len(shape)]

    if kind == "registry":
        # the same configurations obtained through ConstraintRegistry.create, as a sequence of *different* values of
        # the same keywords: every object must behave like the directly constructed one
        from kaira.constraints.registry import ConstraintRegistry as CR

        byclass = {CR.get(n): n for n in CR.list_constraints()}
        plans = [
            (K.TotalPowerConstraint, "total_power", [1.0, 4.0, 0.25, 4.0, 100.0]),
            (K.AveragePowerConstraint, "average_power", [1.0, 0.1, 9.0, 0.1]),
            (K.PeakAmplitudeConstraint, "max_amplitude", [1.0, 0.2, 5.0, 0.2]),
            (K.PAPRConstraint, "max_papr", [4.0, 2.5, 8.0]),
            (K.PerAntennaPowerConstraint, "uniform_power", [1.0, 3.0, 0.5]),
        ]
        for cls_, kwname, values in plans:
            rname = byclass.get(cls_)
            if rname is None:
                ctx.skip(f"{cls_.__name__} not in the registry")
                continue
            for v in values:
                for cplx in (False, True):
                    x = signal("gaussian", (3, 4, 16), cplx, 2.0, g)
                    ctx.case("registry", cls_.__name__, v, cplx)
                    try:
                        y_dir = cls_(**{kwname: v})(x.clone())
                    except Exception:  # noqa: BLE001
                        ctx.skip("input form rejected by the directly constructed object as well")
                        continue
                    try:
                        y_reg = CR.create(rname, **{kwname: v})(x.clone())
                    except Exception as e:  # noqa: BLE001
                        ctx.violation(f"{cls_.__name__}|registry|registry object = direct object|raised:{type(e).__name__}", value=v, error=str(e)[:200])
                        continue
                    ctx.check(bool(torch.allclose(y_reg, y_dir, rtol=1e-6, atol=1e-7)), "registry object = direct object", f"{cls_.__name__}|registry|registry object = direct object|differs", keyword=kwname, value=v, complex=cplx)
        ctx.sample({"unit": u["unit"], "classes": [c.__name__ for c, _, _ in plans]})
        return
    if kind == "longlived":
        # one long-lived object per class: applied to inputs of changing rank / dtype / complexity, and with its public
        # setting re-assigned in between, it must answer exactly like a fresh object built with the current setting
        plans = [
            (K.TotalPowerConstraint, "total_power", [1.0, 4.0, 0.25, 100.0], None),
            (K.AveragePowerConstraint, "average_power", [1.0, 0.1, 9.0], None),
            (K.PeakAmplitudeConstraint, "max_amplitude", [1.0, 0.2, 5.0], None),
            (K.PAPRConstraint, "max_papr", [4.0, 2.5, 8.0], None),
            (K.PerAntennaPowerConstraint, "uniform_power", [1.0, 3.0, 0.5], None),
            (K.PerAntennaPowerConstraint, "power_budget", [torch.tensor([1.0, 2.0, 0.5, 4.0]), torch.tensor([0.1, 0.2, 3.0, 1.0])], None),
        ]
        shapes_ll = [(3, 4, 16), (3, 4, 4, 4), (2, 4), (3, 4, 5), (1, 4, 16), (3, 4, 4, 4), (2, 4, 16)]
        for cls_, attr, values, _ in plans:
            try:
                obj = cls_(**{attr: values[0]})
            except Exception as e:  # noqa: BLE001
                ctx.violation(f"{cls_.__name__}|long-lived object|long-lived object = fresh object|raised:{type(e).__name__}", error=str(e)[:200])
                continue
            plain = isinstance(getattr(obj, attr, None), (int, float)) or (attr == "power_budget" and torch.is_tensor(getattr(obj, attr, None)))
            step = 0
            for vi, v in enumerate(values + values[:1]):
                if vi > 0:
                    if not plain:
                        ctx.skip(f"{cls_.__name__}.{attr} is not a plain attribute")
                        break
                    setattr(obj, attr, v.clone() if torch.is_tensor(v) else v)
                for shape in shapes_ll:
                    for cplx in (False, True):
                        x = signal("gaussian", shape, cplx, 2.0, g)
                        step += 1
                        ctx.case("longlived", cls_.__name__, attr, vi, shape, cplx)
                        tag = f"{cls_.__name__}({attr})|long-lived object"
                        try:
                            y_new = cls_(**{attr: v.clone() if torch.is_tensor(v) else v})(x.clone())
                        except Exception:  # noqa: BLE001
                            ctx.skip("input form rejected by a fresh object as well")
                            continue
                        try:
                            y_old = obj(x.clone())
                        except Exception as e:  # noqa: BLE001
                            ctx.violation(f"{tag}|long-lived object = fresh object|raised:{type(e).__name__}", shape=list(shape), step=step, error=str(e)[:200])
                            continue
                        ok = tuple(y_old.shape) == tuple(y_new.shape) and y_old.dtype == y_new.dtype and bool(torch.allclose(y_old, y_new, rtol=1e-6, atol=1e-7))
                        ctx.check(ok, "long-lived object = fresh object", f"{tag}|long-lived object = fresh object|differs", attribute=attr, value=v, shape=list(shape), complex=cplx, step=step, reassigned=vi > 0)
        ctx.sample({"unit": u["unit"], "classes": [f"{c.__name__}({a})" for c, a, _, _ in plans], "shapes": [list(s_) for s_ in shapes_ll]})
        return
    if kind in ("total", "average"):
        for tgt in targets:
            mk = (lambda: K.TotalPowerConstraint(tgt)) if kind == "total" else (lambda: K.AveragePowerConstraint(tgt))
            cname = "TotalPowerConstraint" if kind == "total" else "AveragePowerConstraint"
            for shape, cplx, fam, sc, x in cases():
                c = mk()
                snap, ver = x.clone(), x._version
                y = c(x)
                cfgc = f"{lay(shape)},{'complex' if cplx else 'real'}"
                ctx.case(kind, tgt, shape, cplx, fam, sc, ncase)
                ncase += 1
                ctx.check(bool(torch.equal(x, snap)) and x._version == ver, "input unmodified", f"{cname}|{cfgc}|input unmodified|changed")
                if not ctx.check(tuple(y.shape) == tuple(x.shape), "shape preserved", f"{cname}|{cfgc}|shape preserved|differs"):
                    continue
                for xi, yi in zip(items(x), items(y)):
                    pin = power(xi, "mean")
                    pout = power(yi, kind if kind == "total" else "mean")
                    ctx.check(pout <= tgt * (1 + 1e-5), "power:never above target", f"{cname}|{cfgc}|power:never above target|exceeds", target=tgt, measured=pout, family=fam, scale=sc, shape=list(shape))
                    if pin >= 1e-4:
                        ctx.check(abs(pout - tgt) <= 1e-3 * tgt, "power:equal within 0.1%", f"{cname}|{cfgc}|power:equal within 0.1%|differs", target=tgt, measured=pout, family=fam, scale=sc, shape=list(shape))
                        ctx.check(ratio_ok(xi, yi), "positive real scaling", f"{cname}|{cfgc}|positive real scaling|not a positive real multiple", family=fam, scale=sc, shape=list(shape))
                if min(power(xi, "mean") for xi in items(x)) >= 1e-4:
                    y2 = c(y)
                    ctx.check(bool(torch.allclose(y2, y, rtol=1e-4, atol=1e-6 * float(y.abs().max()))), "idempotent", f"{cname}|{cfgc}|idempotent|c(c(x)) != c(x)", family=fam, scale=sc, shape=list(shape), target=tgt)
                    y3 = c(x * 3.7)
                    ctx.check(bool(torch.allclose(y3, y, rtol=1e-3, atol=1e-5 * float(y.abs().max()))), "scale invariant", f"{cname}|{cfgc}|scale invariant|c(a*x) != c(x)", family=fam, scale=sc, shape=list(shape), target=tgt)
        # integer-valued signals in other dtypes (float64, and integer tensors where the constraint accepts them):
        # the target power must be met all the same
        for tgt in (2.0, 10.0, 0.3, 300.0):
            for dt in (torch.float64, torch.int64, torch.int32, torch.int16):
                for shape in ((5, 64), (64,), (2, 3, 16)):
                    xi_ = torch.randint(-3, 4, shape, generator=g)
                    xi_.view(-1)[0] = 2
                    x = xi_.to(dt)
                    c = (K.TotalPowerConstraint(tgt)) if kind == "total" else (K.AveragePowerConstraint(tgt))
                    cname = "TotalPowerConstraint" if kind == "total" else "AveragePowerConstraint"
                    ctx.case(kind, "dtype", tgt, str(dt), shape)
                    try:
                        y = c(x)
                    except Exception:  # noqa: BLE001
                        ctx.skip(f"{cname} rejects {str(dt).replace('torch.', '')} input")
                        continue
                    cfgc = f"{lay(shape)},real,{str(dt).replace('torch.', '')}"
                    for xi, yi in zip(items(x.double()), items(y.double())):
                        pout = power(yi, kind if kind == "total" else "mean")
                        if power(xi, "mean") >= 1e-4:
                            ctx.check(abs(pout - tgt) <= 1e-3 * tgt, "power:equal within 0.1%", f"{cname}|{cfgc}|power:equal within 0.1%|differs", target=tgt, measured=pout, shape=list(shape))
                            ctx.check(ratio_ok(xi, yi), "positive real scaling", f"{cname}|{cfgc}|positive real scaling|not a positive real multiple", shape=list(shape))
        ctx.sample({"unit": u["unit"], "targets": targets, "shapes": [list(s) for s in shapes], "families": FAMILIES, "scales": scales})
        return

    if kind == "perantenna":
        for tgt in targets:
            for shape, cplx, fam, sc, x in cases([(2, 4), (5, 3, 32), (2, 3, 4, 8), (1, 2, 16)]):
                A = shape[1]
                for mode in ("uniform", "budget"):
                    budget = torch.tensor([tgt * (j + 1) for j in range(A)])
                    c = K.PerAntennaPowerConstraint(uniform_power=tgt) if mode == "uniform" else K.PerAntennaPowerConstraint(power_budget=budget)
                    y = c(x)
                    cfgc = f"{len(shape)}-D,{'complex' if cplx else 'real'},{mode}"
                    ctx.case(kind, tgt, shape, cplx, fam, sc, mode)
                    if not ctx.check(tuple(y.shape) == tuple(x.shape), "shape preserved", f"PerAntennaPowerConstraint|{cfgc}|shape preserved|differs"):
                        continue
                    dims = tuple(range(2, len(shape)))
                    pin = (x.abs() ** 2).double().mean(dim=dims) if dims else (x.abs() ** 2).double()
                    pout = (y.abs() ** 2).double().mean(dim=dims) if dims else (y.abs() ** 2).double()
                    want = (budget.double().view(1, -1) if mode == "budget" else torch.full_like(pout, tgt)).expand_as(pout)
                    ctx.check(bool((pout <= want * (1 + 1e-5)).all()), "power:never above target", f"PerAntennaPowerConstraint|{cfgc}|power:never above target|exceeds", target=tgt, family=fam, scale=sc)
                    big = pin >= 1e-4
                    if bool(big.any()):
                        ctx.check(bool(((pout - want).abs()[big] <= 1e-3 * want[big]).all()), "power:equal within 0.1%", f"PerAntennaPowerConstraint|{cfgc}|power:equal within 0.1%|differs", target=tgt, family=fam, scale=sc, shape=list(shape))
                    if dims and bool(big.all()):
                        ok = all(ratio_ok(x[b, a], y[b, a]) for b in range(shape[0]) for a in range(A))
                        ctx.check(ok, "positive real scaling", f"PerAntennaPowerConstraint|{cfgc}|positive real scaling|not a positive real multiple", family=fam, scale=sc)
                        ctx.check(bool(torch.allclose(c(y), y, rtol=1e-4, atol=1e-6 * float(y.abs().max()))), "idempotent", f"PerAntennaPowerConstraint|{cfgc}|idempotent|c(c(x)) != c(x)")
                        ctx.check(bool(torch.allclose(c(x * 2.5), y, rtol=1e-3, atol=1e-5 * float(y.abs().max()))), "scale invariant", f"PerAntennaPowerConstraint|{cfgc}|scale invariant|c(a*x) != c(x)")
        ctx.sample({"unit": u["unit"], "targets": targets})
        return

    if kind == "peak":
        for tgt in targets:
            for shape, cplx, fam, sc, x in cases():
                c = K.PeakAmplitudeConstraint(tgt)
                cfgc = f"{lay(shape)},{'complex' if cplx else 'real'}"
                ctx.case(kind, tgt, shape, cplx, fam, sc)
                try:
                    y = c(x)
                except Exception as e:  # noqa: BLE001
                    if cplx:
                        ctx.skip("PeakAmplitudeConstraint rejects complex input")
                        continue
                    ctx.violation(f"PeakAmplitudeConstraint|{cfgc}|peak amplitude bound|raised:{type(e).__name__}", error=str(e)[:200])
                    continue
                ctx.check(float(y.abs().max()) <= tgt * (1 + 1e-6), "peak amplitude bound", f"PeakAmplitudeConstraint|{cfgc}|peak amplitude bound|sample above limit", limit=tgt, peak=float(y.abs().max()))
                inside = x.abs() <= tgt
                ctx.check(bool(torch.equal(y[inside], x[inside])) and bool((torch.sign(y) == torch.sign(x)).all()), "peak: samples inside the limit unchanged, signs kept", f"PeakAmplitudeConstraint|{cfgc}|peak: samples inside the limit unchanged, signs kept|changed")
                ctx.check(bool(torch.equal(c(y), y)), "idempotent", f"PeakAmplitudeConstraint|{cfgc}|idempotent|c(c(x)) != c(x)")
        ctx.sample({"unit": u["unit"], "limits": targets})
        return

    def non_sparse(t):
        p = (t.abs() ** 2).double()
        return float((p >= p.max() / 100).double().mean()) >= 0.25

    if kind == "papr":
        for lim in (1.5, 2.0, 3.0, 6.0, 10.0):
            for shape, cplx, fam, sc, x in cases([(64,), (1, 64), (4, 64), (2, 3, 32), (1, 4, 16)] if q else shapes):
                c = K.PAPRConstraint(max_papr=lim)
                cfgc = f"{lay(shape)},{'complex' if cplx else 'real'}"
                snap = x.clone()
                y = c(x)
                ctx.case(kind, lim, shape, cplx, fam, sc)
                ctx.check(bool(torch.equal(x, snap)), "input unmodified", f"PAPRConstraint|{cfgc}|input unmodified|changed")
                if not ctx.check(tuple(y.shape) == tuple(x.shape), "shape preserved", f"PAPRConstraint|{cfgc}|shape preserved|differs"):
                    continue
                for xi, yi in zip(items(x), items(y)):
                    if float((xi.abs() ** 2).mean()) < 1e-4:
                        ctx.skip("negligible-power item")
                        continue
                    if not non_sparse(xi):
                        ctx.skip("sparse signal (limit not attainable by clipping)")
                        continue
                    pp = papr_of(yi)
                    regime = f"{'tight limit(<2)' if lim < 2 else 'limit>=2'},{'heavy-tailed' if fam == 'heavy' else 'other signals'}"
                    ctx.check(pp <= lim * (1 + 1e-4), "PAPR bound", f"PAPRConstraint|{cfgc},{regime}|PAPR bound|output PAPR above limit", limit=lim, measured=pp, input_papr=papr_of(xi), family=fam, scale=sc, shape=list(shape))
                    # phases / signs preserved, magnitudes never increased
                    nz = xi.abs() > 0
                    ph_ok = bool(((yi[nz] / xi[nz]).imag.abs() <= 1e-4).all()) if torch.is_complex(xi) else bool((torch.sign(yi[nz]) == torch.sign(xi[nz])).all())
                    ctx.check(ph_ok and bool((yi.abs() <= xi.abs() * (1 + 1e-5)).all()), "PAPR: clipping only (phase kept, magnitude not increased)", f"PAPRConstraint|{cfgc}|PAPR: clipping only (phase kept, magnitude not increased)|violated", family=fam)
        ctx.sample({"unit": u["unit"], "limits": [1.5, 2.0, 3.0, 6.0, 10.0]})
        return

    def random_constraint(cplx, N):
        t = rng.choice(["total", "average", "papr"] + ([] if cplx else ["peak"]))
        if t == "total":
            v = rng.choice(targets) * N
            return K.TotalPowerConstraint(v), ("total", v)
        if t == "average":
            v = rng.choice(targets)
            return K.AveragePowerConstraint(v), ("average", v)
        if t == "papr":
            v = rng.choice([2.0, 3.0, 6.0])
            return K.PAPRConstraint(v), ("papr", v)
        v = rng.choice([0.5, 2.0, 50.0])
        return K.PeakAmplitudeConstraint(v), ("peak", v)

    if kind == "composite":
        for shape, cplx, fam, sc, x in cases([(64,), (4, 64), (2, 3, 32)]):
            for _ in range(2 if q else 6):
                parts, descr = zip(*[random_constraint(cplx, 64) for _ in range(rng.randint(2, 4))])
                seq = x
                for p in parts:
                    seq = p(seq)
                ctx.case(kind, shape, cplx, fam, sc, descr)
                cfgc = f"{lay(shape)},{'complex' if cplx else 'real'}"
                for nm, out in (("CompositeConstraint", K.CompositeConstraint(list(parts))(x)), ("apply_constraint_chain", apply_constraint_chain(list(parts), x)), ("combine_constraints", combine_constraints(list(parts))(x))):
                    ctx.check(bool(torch.allclose(out, seq, rtol=1e-6, atol=0)), "composite = sequential", f"{nm}|{cfgc}|composite = sequential|differs from applying the parts in order", parts=[list(d) for d in descr], family=fam)
        single = K.TotalPowerConstraint(1.0)
        ctx.check(combine_constraints([single]) is single, "composite = sequential", "combine_constraints|single|composite = sequential|single constraint not returned as is")
        ctx.sample({"unit": u["unit"], "chains": "2-4 random parts of {total, average, papr, peak}"})
        return

    if kind == "ofdm_factory":
        for shape, cplx, fam, sc, x in cases([(64,), (1, 64), (4, 64), (2, 3, 32)]):
            if fam in ("heavy", "neg_spike"):
                continue  # sparse: PAPR limit not attainable by clipping
            n_item = x[0].numel() if (x.dim() > 1 and x.shape[0] > 1) else x.numel()
            for P_per in (0.1, 1.0, 20.0):
                for papr in (3.0, 6.0):
                    for use_peak in (False, "loose", "tight"):
                        if use_peak and cplx:
                            continue
                        P = P_per * n_item
                        # loose: the peak limit is implied by PAPR and power limits together; tight: still jointly
                        # attainable (a constant-envelope signal meets all three) but below the PAPR-implied peak
                        peak = None if not use_peak else (1.05 * math.sqrt(papr * P_per) if use_peak == "loose" else 1.05 * math.sqrt(P_per))
                        c = create_ofdm_constraints(total_power=P, max_papr=papr, is_complex=cplx, peak_amplitude=peak)
                        y = c(x)
                        cfgc = f"{lay(shape)},{'complex' if cplx else 'real'},{(use_peak + ' peak') if use_peak else 'no peak'}"
                        ctx.case(kind, shape, cplx, fam, sc, P_per, papr, use_peak)
                        for xi, yi in zip(items(x), items(y)):
                            if float((xi.abs() ** 2).mean()) < 1e-4 or not non_sparse(xi):
                                ctx.skip("negligible or sparse item")
                                continue
                            pw, pp, pk = power(yi, "total"), papr_of(yi), float(yi.abs().max())
                            ok = abs(pw - P) <= 1e-3 * P and pp <= papr * (1 + 1e-4) and (peak is None or pk <= peak * (1 + 1e-5))
                            sym = "total power" if abs(pw - P) > 1e-3 * P else ("PAPR" if pp > papr * (1 + 1e-4) else "peak amplitude")
                            ctx.check(ok, "factory composites satisfy all limits", f"create_ofdm_constraints|{cfgc}|factory composites satisfy all limits|{sym} limit violated", total_power=P, measured_power=pw, max_papr=papr, measured_papr=pp, peak_limit=peak, measured_peak=pk, family=fam, scale=sc)
                        mp = measure_signal_properties(y)
                        ctx.check(abs(mp["papr"] - papr_of(y)) <= 1e-3 * mp["papr"] and abs(mp["peak_amplitude"] - float(y.abs().max())) <= 1e-5 * mp["peak_amplitude"], "measure_signal_properties agrees", "measure_signal_properties|-|measure_signal_properties agrees|differs")
        ctx.sample({"unit": u["unit"], "per_sample_powers": [0.1, 1.0, 20.0], "paprs": [3.0, 6.0]})
        return

    if kind == "mimo_factory":
        for shape, cplx, fam, sc, x in cases([(3, 4, 32), (2, 2, 64), (2, 3, 4, 8)]):
            if fam in ("heavy", "neg_spike"):
                continue
            A = shape[1]
            for tgt in (0.1, 1.0, 10.0):
                for papr in (None, 4.0):
                    for mode in ("uniform", "total"):
                        n_item = x[0].numel()
                        c = create_mimo_constraints(A, uniform_power=tgt if mode == "uniform" else None, total_power=tgt * n_item if mode == "total" else None, max_papr=papr)
                        y = c(x)
                        cfgc = f"{len(shape)}-D,{'complex' if cplx else 'real'},{mode},{'papr' if papr else 'no papr'}"
                        ctx.case(kind, shape, cplx, fam, sc, tgt, papr, mode)
                        ok = True
                        sym = ""
                        if float((x.abs() ** 2).mean()) < 1e-4:
                            ctx.skip("negligible input")
                            continue
                        if mode == "uniform":
                            dims = tuple(range(2, len(shape)))
                            pout = (y.abs() ** 2).double().mean(dim=dims)
                            if bool((pout > tgt * (1 + 1e-4)).any()):
                                ok, sym = False, "per-antenna power"
                        else:
                            for yi in items(y):
                                if power(yi, "total") > tgt * n_item * (1 + 1e-4):
                                    ok, sym = False, "total power"
                        if papr is not None:
                            for xi, yi in zip(items(x), items(y)):
                                if non_sparse(xi) and papr_of(yi) > papr * (1 + 1e-4):
                                    ok, sym = False, "PAPR"
                        ctx.check(ok, "factory composites satisfy all limits", f"create_mimo_constraints|{cfgc}|factory composites satisfy all limits|{sym} limit violated", family=fam, scale=sc, target=tgt, papr=papr)
        ctx.sample({"unit": u["unit"], "targets": [0.1, 1.0, 10.0]})
        return
    raise ValueError(kind)
