"""C04 - encoding followed by the encoder's own message extraction is the identity."""
from __future__ import annotations

import random

from vk.workloads import catalogue as cat

PROPERTY = "C04"
RULE = (
    "C01's catalogue x all 2^k messages (k<=12; 2048 seeded above) x layouts {1-D, (B,.), (B1,B2,.)} x b=1..4 concatenated blocks x dtypes "
    "{float32,float64,int64}; per case: encode shape (.., b*n), inverse_encode -> (message, zero syndrome), extract_message, project_word; "
    "rejection for last dimension b*k+-1 / b*n+-1. Distinct = (object, layout, b, dtype, message-batch digest); non-trivial = batch contains a non-zero message."
    " Added after the seeded-fault rounds: same catalogue additions as C01 (index-list information sets for cyclic/BCH, int64 generators, wide same-shaped groups), units grouped by family and (n,k)."
    " Round 5: form axis of the catalogue (deep copy, .double(), .double().float(), state_dict twin)."
)
ASSUMPTIONS = [
    "exact tensor equality against the message that was fed (after value comparison across dtypes)",
    "inputs are contiguous (apply_blockwise uses view)",
    "an exception on one of the layouts the property enumerates is a violation with symptom 'layout_rejected', distinct from a wrong answer",
    "polar encoders are C11's",
]
REQUIRED = ["inverse_encode:message", "inverse_encode:syndrome=0", "encode:shape", "extract_message", "project_word", "reject:encode", "reject:inverse"]
JOBS = {"quick": 4, "thorough": 16}
TIMEOUT = {"quick": 900, "thorough": 3600}


def units(tier, seed):
    out = []
    for spec in cat.catalogue(tier, seed):
        cost = 1
        if spec["family"] in ("bch", "rs"):
            cost = 2 ** spec["mu"] / 4
        if spec["family"] == "golay":
            cost = 8
        if spec["family"] == "rm":
            cost = 4
        if spec["family"] == "hamming":
            cost = 2 ** spec["mu"] / 2
        # same family, same (n, k): built and used one after the other in one process
        out.append({"unit": f"{spec['family']}#{spec['id']}", "spec": spec, "cost": cost, "group": "%s:%d:%d" % ((spec["family"],) + tuple(cat.nk(spec)))})
    for grp in cat.big_groups(tier, seed):
        out.append({"unit": f"group#{grp['id']}", "spec": grp, "cost": 24})
    return out


def _layouts(msgs, k, rng, full):
    """Yield (layout name, b, tensor) built from rows of msgs (M,k)."""
    import torch

    M = msgs.shape[0]

    def take(count):
        idx = [rng.randrange(M) for _ in range(count)]
        return msgs[idx]

    for b in (1, 2, 3, 4):
        # 1-D
        yield "1-D", b, take(b).reshape(-1)
        # (B, b*k)
        B = 3 if not (full and b == 1) else M
        rows = msgs if (full and b == 1) else take(B * b)
        yield "(B,.)", b, rows.reshape(B, b * k)
        # (B1,B2,b*k)
        yield "(B1,B2,.)", b, take(2 * 3 * b).reshape(2, 3, b * k)
    yield "(1,.)", 1, take(1).reshape(1, k)


def run_unit(ctx, u):
    import torch

    spec = u["spec"]
    if spec["family"] == "group":
        # same-shaped objects wider than a machine word, built and used one after the other in this process;
        # the first one is judged again at the end (an object must stay right after later ones were built)
        for m in spec["members"] + spec["members"][:1]:
            run_unit(ctx, {"unit": u["unit"], "spec": m})
        return
    nm = cat.name(spec)
    rng = random.Random(f"c04-{ctx.seed}-{spec['id']}")
    try:
        enc = cat.build(spec)
    except Exception as e:  # noqa: BLE001
        if spec["family"] == "bch" and "Bose" in str(e) and not spec.get("must_construct"):
            ctx.skip("bch delta rejected as non-Bose")
            return
        ctx.violation(f"{nm}|constructible|raised:{type(e).__name__}", spec=spec, error=str(e)[:300])
        return
    n, k = int(enc.code_length), int(enc.code_dimension)
    heavy = spec["family"] in ("rm", "hamming", "golay") and (2**k > 4096 or spec["family"] == "rm" and k > 8)
    msgs, exhaustive = cat.messages_for(rng, k, exhaustive_to=8 if heavy else 12, count=256 if heavy else 2048)
    has_project = hasattr(enc, "project_word")
    dtypes = [torch.float32, torch.float64, torch.int64]

    for lname, b, x32 in _layouts(msgs, k, rng, True):
        for dt in dtypes if (lname == "(B,.)" and b <= 2) else [torch.float32]:
            x = x32.to(dt)
            lk = f"{lname},b{'=1' if b == 1 else '>1'},{str(dt).replace('torch.', '')}"
            ctx.case(spec["id"], lname, b, str(dt), x32.sum().item(), x32.numel(), nontrivial=bool(x32.any()))
            # ---------------- encode
            try:
                c = enc(x)
            except Exception as e:  # noqa: BLE001
                if dt != torch.float32:
                    ctx.skip(f"encode rejects dtype {dt}")
                    continue
                ctx.violation(f"{nm}|{lk}|encode:shape|layout_rejected:{type(e).__name__}", spec=spec, shape=list(x.shape), error=str(e)[:200])
                continue
            good = tuple(c.shape) == tuple(x.shape[:-1]) + (b * n,)
            ctx.check(good, "encode:shape", f"{nm}|{lk}|encode:shape|wrong", spec=spec, in_shape=list(x.shape), out_shape=list(c.shape), n=n, k=k)
            if not good:
                continue
            # ---------------- inverse_encode
            try:
                res = enc.inverse_encode(c)
            except Exception as e:  # noqa: BLE001
                if dt != torch.float32:
                    ctx.skip(f"inverse_encode rejects dtype {dt}")
                    continue
                ctx.violation(f"{nm}|{lk}|inverse_encode:message|layout_rejected:{type(e).__name__}", spec=spec, shape=list(c.shape), error=str(e)[:200])
                res = None
            if res is not None:
                dec, syn = res if isinstance(res, tuple) else (res, None)
                shape_ok = tuple(dec.shape) == tuple(x.shape)
                ctx.check(shape_ok, "inverse_encode:shape", f"{nm}|{lk}|inverse_encode:shape|wrong", spec=spec, in_shape=list(c.shape), out_shape=list(dec.shape), expected=list(x.shape))
                if shape_ok:
                    same = bool((dec.to(torch.float64) == x.to(torch.float64)).all())
                    if same:
                        ctx.ok("inverse_encode:message", max(1, x.numel() // k))
                    else:
                        bad = (dec.to(torch.float64) != x.to(torch.float64)).reshape(-1, k).any(dim=1).nonzero()[0].item()
                        ctx.violation(f"{nm}|{lk}|inverse_encode:message|differs", spec=spec, message=x.reshape(-1, k)[bad], decoded=dec.reshape(-1, k)[bad])
                if syn is not None:
                    ctx.check(bool((syn == 0).all()), "inverse_encode:syndrome=0", f"{nm}|{lk}|inverse_encode:syndrome=0|nonzero", spec=spec, shape=list(c.shape))
            # ---------------- extract_message
            try:
                em = enc.extract_message(c)
                ok = tuple(em.shape) == tuple(x.shape) and bool((em.to(torch.float64) == x.to(torch.float64)).all())
                ctx.check(ok, "extract_message", f"{nm}|{lk}|extract_message|{'differs' if tuple(em.shape) == tuple(x.shape) else 'shape'}", spec=spec, in_shape=list(c.shape), out_shape=list(em.shape))
            except Exception as e:  # noqa: BLE001
                ctx.violation(f"{nm}|{lk}|extract_message|layout_rejected:{type(e).__name__}", spec=spec, shape=list(c.shape), error=str(e)[:200])
            # ---------------- project_word
            if has_project:
                try:
                    pw = enc.project_word(c)
                    ok = tuple(pw.shape) == tuple(x.shape) and bool((pw.to(torch.float64) == x.to(torch.float64)).all())
                    ctx.check(ok, "project_word", f"{nm}|{lk}|project_word|{'differs' if tuple(pw.shape) == tuple(x.shape) else 'shape'}", spec=spec, in_shape=list(c.shape), out_shape=list(pw.shape))
                except Exception as e:  # noqa: BLE001
                    ctx.violation(f"{nm}|{lk}|project_word|layout_rejected:{type(e).__name__}", spec=spec, shape=list(c.shape), error=str(e)[:200])
    if not has_project:
        ctx.skip("no project_word on this encoder class")

    # ---------------- rejection of non-multiples
    for b in (1, 2):
        for d in (-1, 1):
            L = b * k + d
            if L <= 0 or L % k == 0:
                continue
            for shape in ((L,), (2, L)):
                x = torch.zeros(shape)
                x[..., 0] = 1
                try:
                    out = enc(x)
                    ctx.violation(f"{nm}|len=bk{d:+d}|reject:encode|answered", spec=spec, in_shape=list(shape), out_shape=list(out.shape))
                except Exception:  # noqa: BLE001
                    ctx.ok("reject:encode")
            L = b * n + d
            if L <= 0 or L % n == 0:
                continue
            for shape in ((L,), (2, L)):
                x = torch.zeros(shape)
                for meth in ("inverse_encode", "extract_message") + (("project_word",) if has_project else ()):
                    try:
                        out = getattr(enc, meth)(x)
                        o = out[0] if isinstance(out, tuple) else out
                        ctx.violation(f"{nm}|len=bn{d:+d}|reject:inverse|{meth} answered", spec=spec, in_shape=list(shape), out_shape=list(o.shape))
                    except Exception:  # noqa: BLE001
                        ctx.ok("reject:inverse")
    if spec["id"] % 40 == 0:
        ctx.sample({"spec": spec, "n": n, "k": k, "messages": int(msgs.shape[0]), "exhaustive": exhaustive, "layouts": ["1-D", "(B,.)", "(B1,B2,.)"], "blocks": [1, 2, 3, 4]})
    if exhaustive:
        ctx.exhaustive_units += 1
