"""C07 - additive-noise channels deliver exactly the configured noise power / SNR."""
from __future__ import annotations

import hashlib
import math

from vk.oracles import stats

PROPERTY = "C07"
PLANNED_TESTS = 8000
ALPHA = 1e-9 / PLANNED_TESTS
RULE = (
    "AWGN, Laplacian (power/SNR), NonlinearChannel(add_noise) with identity and cubic non-linearity, and the noise stage of FlatFadingChannel (csi=1) x real/complex x input powers "
    "1e-3..1e3 x SNR -20..40 dB x shapes (N,), (B,N/B), (B,C,H,W) x float32/float64. Exact clauses on every execution (supplied noise added verbatim, add_noise_for_snr returns "
    "(x+n, n), conversions on dense grids, the three SNR tools agree with the reference on the same tensors, same-seed scaling noise(P2)=sqrt(P2/P1)*noise(P1)); statistical clauses "
    "(zero mean, power) with exact chi-square / Bernstein acceptance intervals at level 1e-9/8000 on N=1e6 (quick) / 4e6 (thorough) samples. Distinct = configuration; non-trivial = "
    "a configured power or SNR with a random input."
    " Added after the seeded-fault rounds: dim/keepdim forms of calculate_snr / estimate_signal_power / add_noise_for_snr against per-slice references; one channel object across real/complex/float64/reshaped inputs must answer like a fresh object under the same seed."
    " Round 5: a used channel whose avg_noise_power / snr_db attribute is re-assigned answers exactly like a fresh object built with that value (same seed)."
)
ASSUMPTIONS = [
    "per-test level alpha = 1e-9 / 8000 (union bound over at most 8000 planned tests)",
    "Laplacian 'scale=' parameterisation with complex input is not judged for total power (the property speaks about power / SNR parameterisations)",
    "SNR tools are compared where noise power >> float32 eps (the metric adds eps to the denominator)",
    "the global torch generator is seeded per case: every rejection replays",
]
REQUIRED = ["supplied noise added verbatim", "conversions", "SNR tools agree", "same-seed scaling", "re-configured object = fresh object", "noise mean = 0", "noise power = configured", "SNR = configured"]
JOBS = {"quick": 8, "thorough": 16}
TIMEOUT = {"quick": 900, "thorough": 3600}


def units(tier, seed):
    out = [{"unit": "conversions", "kind": "conv", "cost": 1}, {"unit": "exact", "kind": "exact", "cost": 2}, {"unit": "one-object-many-forms", "kind": "reuse", "cost": 2}]
    for ch in ("awgn", "laplacian", "nonlinear-identity", "nonlinear-cubic", "flatfading"):
        for cplx in (False, True):
            for mode in ("power", "snr"):
                out.append({"unit": f"{ch}:{'complex' if cplx else 'real'}:{mode}", "kind": "stat", "channel": ch, "complex": cplx, "mode": mode, "cost": 6})
    return out


def seed_for(*parts):
    return int(hashlib.blake2b(repr(parts).encode(), digest_size=6).hexdigest(), 16)


def make_channel(ch, mode, value):
    import torch

    from kaira import channels as C

    kw = {"avg_noise_power": value} if mode == "power" else {"snr_db": value}
    if ch == "awgn":
        return C.AWGNChannel(**kw)
    if ch == "laplacian":
        return C.LaplacianChannel(**kw)
    if ch == "nonlinear-identity":
        return C.NonlinearChannel(lambda t: t, add_noise=True, **kw)
    if ch == "nonlinear-cubic":
        return C.NonlinearChannel(lambda t: t + 0.1 * t * torch.abs(t) ** 2 if torch.is_complex(t) else t + 0.1 * t**3, add_noise=True, **kw)
    if ch == "flatfading":
        return C.FlatFadingChannel("rayleigh", coherence_time=5, **kw)
    raise ValueError(ch)


def transmit(ch, chan, x):
    """-> (reference signal the noise is added to, channel output)."""
    import torch

    if ch == "flatfading":
        B = x.shape[0] if x.dim() > 1 else 1
        L = x.numel() // B
        csi = torch.ones(B, L, dtype=torch.complex64 if x.dtype in (torch.float32, torch.complex64) else torch.complex128)
        y = chan(x, csi=csi)
        return x, y
    if ch == "nonlinear-cubic":
        base = chan.nonlinear_fn(x)
        return base, chan(x)
    return x, chan(x)


def run_unit(ctx, u):
    import torch

    from kaira import channels as C
    from kaira.metrics.signal import SignalToNoiseRatio
    from kaira.utils import add_noise_for_snr, calculate_snr, noise_power_to_snr, snr_db_to_linear, snr_linear_to_db, snr_to_noise_power

    kind = u["kind"]
    q = ctx.tier == "quick"

    if kind == "conv":
        dbs = [x / 4 for x in range(-160, 241)]
        n = 0
        for db in dbs:
            lin = float(snr_db_to_linear(float(db)))
            ok = abs(lin - 10 ** (db / 10)) <= 1e-5 * 10 ** (db / 10)
            back = float(snr_linear_to_db(float(lin)))
            ok = ok and abs(back - db) <= 1e-4
            ctx.case("conv", db, nontrivial=db != 0)
            ctx.check(ok, "conversions", "snr_db_to_linear/snr_linear_to_db|scalar|conversions|differs", db=db, linear=lin, back=back)
            for P in (1e-3, 0.1, 1.0, 7.5, 1e3):
                npow = float(snr_to_noise_power(P, float(db)))
                ref = P / 10 ** (db / 10)
                ctx.check(abs(npow - ref) <= 2e-6 * ref, "conversions", "snr_to_noise_power|scalar|conversions|differs", P=P, db=db, got=npow, expected=ref)
                snr = float(noise_power_to_snr(torch.tensor(P), torch.tensor(ref)))
                ctx.check(abs(snr - db) <= 1e-3, "conversions", "noise_power_to_snr|scalar|conversions|differs", P=P, noise=ref, got=snr, expected=db)
                n += 1
        t = torch.tensor(dbs[::8])
        lin_t = snr_db_to_linear(t)
        ctx.check(bool(torch.allclose(lin_t.double(), 10 ** (t.double() / 10), rtol=1e-5)), "conversions", "snr_db_to_linear|tensor|conversions|differs")
        ctx.check(bool(torch.allclose(snr_linear_to_db(lin_t), t, atol=1e-3)), "conversions", "snr_linear_to_db|tensor|conversions|differs")
        Pt = torch.tensor([[1e-3], [1.0], [50.0]])
        np_t = snr_to_noise_power(Pt, t.reshape(1, -1))
        ref_t = Pt.double() / 10 ** (t.double().reshape(1, -1) / 10)
        ctx.check(tuple(np_t.shape) == (3, t.numel()) and bool(torch.allclose(np_t.double(), ref_t, rtol=1e-5)), "conversions", "snr_to_noise_power|tensor broadcasting|conversions|differs")
        ctx.check(bool(torch.allclose(noise_power_to_snr(Pt.expand(3, t.numel()).contiguous(), np_t), t.reshape(1, -1).expand(3, -1), atol=1e-3)), "conversions", "noise_power_to_snr|tensor|conversions|differs")
        ctx.sample({"unit": "conversions", "db_grid": [dbs[0], dbs[-1], 0.25], "powers": [1e-3, 0.1, 1.0, 7.5, 1e3]})
        return

    if kind == "reuse":
        # one channel object serves real, complex, float64 and differently shaped inputs in turn: under the same torch
        # seed it must answer exactly like a fresh object (nothing computed for an earlier input may be reused)
        g = torch.Generator().manual_seed(seed_for("c07r", ctx.seed))
        forms = [((64,), False, torch.float32), ((4, 16), True, torch.float32), ((2, 3, 4, 4), False, torch.float64), ((8, 8), True, torch.float64), ((64,), False, torch.float32), ((1, 32), True, torch.float32)]
        for ch in ("awgn", "laplacian", "nonlinear-identity", "flatfading"):
            for mode, val in (("power", 0.5), ("snr", 3.0)):
                for start in range(2):
                    chan = make_channel(ch, mode, val)
                    for step, (shape, cplx, dt) in enumerate(forms[start:] + forms[:start]):
                        x = torch.randn(shape, generator=g, dtype=dt)
                        if cplx:
                            x = torch.complex(x, torch.randn(shape, generator=g, dtype=dt))
                        sd = seed_for("c07r", ctx.seed, ch, mode, start, step)
                        ctx.case("reuse", ch, mode, start, step)
                        try:
                            torch.manual_seed(sd)
                            _, y_used = transmit(ch, chan, x)
                            torch.manual_seed(sd)
                            _, y_fresh = transmit(ch, make_channel(ch, mode, val), x)
                        except Exception as e:  # noqa: BLE001
                            ctx.violation(f"{ch},{mode}|one object across input forms|same-seed scaling|raised:{type(e).__name__}", step=step, shape=list(shape), error=str(e)[:200])
                            continue
                        ok = tuple(y_used.shape) == tuple(y_fresh.shape) and y_used.dtype == y_fresh.dtype and bool(torch.allclose(y_used, y_fresh, rtol=1e-6, atol=1e-7))
                        ctx.check(ok, "same-seed scaling", f"{ch},{mode}|one object across input forms|same-seed scaling|a used object answers differently from a fresh one under the same seed", step=step, shape=list(shape), complex=cplx, dtype=str(dt), noise_power_used=float(((y_used - x).abs() ** 2).mean()) if tuple(y_used.shape) == tuple(x.shape) else None, noise_power_fresh=float(((y_fresh - x).abs() ** 2).mean()) if tuple(y_fresh.shape) == tuple(x.shape) else None)
        ctx.sample({"unit": "one-object-many-forms", "forms": [[list(sh), "complex" if c else "real", str(d)] for sh, c, d in forms]})
        return

    if kind == "exact":
        g = torch.Generator().manual_seed(seed_for("c07e", ctx.seed))
        for shape in ((64,), (4, 16), (2, 3, 4, 4)):
            for cplx in (False, True):
                for dt in (torch.float32, torch.float64):
                    x = torch.randn(shape, generator=g, dtype=dt)
                    nz = torch.randn(shape, generator=g, dtype=dt) * 0.3
                    if cplx:
                        x = torch.complex(x, torch.randn(shape, generator=g, dtype=dt))
                        nz = torch.complex(nz, torch.randn(shape, generator=g, dtype=dt) * 0.3)
                    cfgc = f"{'complex' if cplx else 'real'},{str(dt).replace('torch.', '')}"
                    ctx.case("exact", shape, cplx, str(dt))
                    for mk in (lambda: C.AWGNChannel(avg_noise_power=0.5), lambda: C.AWGNChannel(snr_db=3.0)):
                        y = mk()(x, noise=nz)
                        ctx.check(bool(torch.equal(y, x + nz)), "supplied noise added verbatim", f"AWGNChannel|{cfgc}|supplied noise added verbatim|differs", shape=list(shape))
                    torch.manual_seed(5)
                    ys, ns = add_noise_for_snr(x, 7.0)
                    ctx.check(bool(torch.equal(ys, x + ns)) and tuple(ns.shape) == tuple(x.shape), "add_noise_for_snr returns (x+n, n)", f"add_noise_for_snr|{cfgc}|add_noise_for_snr returns (x+n, n)|differs", shape=list(shape))
                    # the three SNR tools agree with the reference on the same pair
                    y = x + nz
                    Px = float((x.abs() ** 2).double().mean())
                    Pn = float((nz.abs() ** 2).double().mean())
                    ref_db = 10 * math.log10(Px / Pn)
                    v1 = float(calculate_snr(x, y))
                    v3 = float(noise_power_to_snr(torch.tensor(Px), torch.tensor(Pn)))
                    ok = abs(v1 - ref_db) < 1e-3 and abs(v3 - ref_db) < 1e-3
                    m = SignalToNoiseRatio()
                    if x.dim() > 1 and x.shape[0] > 1:
                        per = m(x, y)
                        refs = [10 * math.log10(float((x[i].abs() ** 2).double().mean()) / float((nz[i].abs() ** 2).double().mean())) for i in range(x.shape[0])]
                        ok = ok and all(abs(float(a) - b) < 1e-3 for a, b in zip(per, refs))
                        lin = SignalToNoiseRatio(mode="linear")(x, y)
                        ok = ok and all(abs(float(a) / 10 ** (b / 10) - 1) < 1e-4 for a, b in zip(lin, refs))
                    else:
                        ok = ok and abs(float(m(x, y)) - ref_db) < 1e-3 and abs(float(SignalToNoiseRatio(mode="linear")(x, y)) / 10 ** (ref_db / 10) - 1) < 1e-4
                    ctx.check(ok, "SNR tools agree", f"calculate_snr/SignalToNoiseRatio/noise_power_to_snr|{cfgc}|SNR tools agree|differ from reference", shape=list(shape), reference_db=ref_db, calculate_snr=v1)
        # ---- the dim / keepdim forms of the utilities: slices with very different signal *and* noise powers
        from kaira.utils import estimate_signal_power

        for shape, dims in (((4, 64), (1, -1, 0, (0, 1))), ((3, 2, 4, 8), ((1, 2, 3), 3, (2, 3), 0, (0, 1, 2, 3)))):
            for cplx in (False, True):
                for dt in (torch.float32, torch.float64):
                    cfgc = f"{'complex' if cplx else 'real'},{str(dt).replace('torch.', '')}"
                    B = shape[0]
                    sig_scale = torch.tensor([10.0 ** (i - 1) for i in range(B)], dtype=dt).reshape((B,) + (1,) * (len(shape) - 1))
                    noi_scale = torch.tensor([10.0 ** (-(i % 3)) * 0.7 for i in range(B)], dtype=dt).reshape((B,) + (1,) * (len(shape) - 1))
                    x = torch.randn(shape, generator=g, dtype=dt) * sig_scale
                    nz = torch.randn(shape, generator=g, dtype=dt) * noi_scale
                    if cplx:
                        x = torch.complex(x, torch.randn(shape, generator=g, dtype=dt) * sig_scale)
                        nz = torch.complex(nz, torch.randn(shape, generator=g, dtype=dt) * noi_scale)
                    y = x + nz
                    for dim in dims:
                        for keep in (False, True):
                            ctx.case("exact-dim", shape, cplx, str(dt), dim, keep)
                            Px = (x.abs() ** 2).double().mean(dim=dim, keepdim=keep)
                            Pn = (nz.abs() ** 2).double().mean(dim=dim, keepdim=keep)
                            ref = 10 * torch.log10(Px / Pn)
                            try:
                                est = estimate_signal_power(x, dim=dim, keepdim=keep)
                                got = calculate_snr(x, y, dim=dim, keepdim=keep)
                            except Exception as e:  # noqa: BLE001
                                ctx.violation(f"calculate_snr(dim)|{cfgc}|SNR tools agree|raised:{type(e).__name__}", shape=list(shape), dim=dim, keepdim=keep, error=str(e)[:200])
                                continue
                            ok = tuple(est.shape) == tuple(Px.shape) and bool(torch.allclose(est.double(), Px, rtol=1e-4))
                            ctx.check(ok, "SNR tools agree", f"estimate_signal_power(dim)|{cfgc}|SNR tools agree|differs from the per-slice mean power", shape=list(shape), dim=dim, keepdim=keep, got=est.flatten()[:4], expected=Px.flatten()[:4])
                            ok = tuple(got.shape) == tuple(ref.shape) and bool(torch.allclose(got.double(), ref, atol=2e-3))
                            ctx.check(ok, "SNR tools agree", f"calculate_snr(dim)|{cfgc}|SNR tools agree|differs from the per-slice reference", shape=list(shape), dim=dim, keepdim=keep, got=got.flatten()[:4], expected=ref.flatten()[:4])
                    # add_noise_for_snr(dim): the noise of a slice follows that slice's power - same-seed relation
                    # noise(seed, a_i * x_i) = a_i * noise(seed, x_i) for per-item factors a_i, and per-item SNR on long items
                    for dim in ([(1,)] if len(shape) == 2 else [(1, 2, 3)]):
                        a = torch.tensor([3.0 ** i for i in range(B)], dtype=dt).reshape((B,) + (1,) * (len(shape) - 1))
                        torch.manual_seed(11)
                        _, n1 = add_noise_for_snr(x, 6.0, dim=dim)
                        torch.manual_seed(11)
                        _, n2 = add_noise_for_snr(x * a, 6.0, dim=dim)
                        ok = bool(torch.allclose(n2, n1 * a, rtol=1e-4, atol=0))
                        ctx.check(ok, "same-seed scaling", f"add_noise_for_snr(dim)|{cfgc}|same-seed scaling|per-item noise does not follow the per-item signal power", shape=list(shape), dim=list(dim))
                        Pxi = (x.abs() ** 2).double().mean(dim=dim)
                        Pni = (n1.abs() ** 2).double().mean(dim=dim)
                        if x[0].numel() >= 64:
                            snr_i = 10 * torch.log10(Pxi / Pni)
                            # 64 samples per item (fixed torch seed): sample power of the noise within +-4.5 dB of its expectation (10 sigma)
                            ctx.check(bool(((snr_i - 6.0).abs() < 4.5).all()), "SNR = configured", f"add_noise_for_snr(dim)|{cfgc}|SNR = configured|per-item SNR off by more than 4.5 dB", shape=list(shape), per_item_snr=snr_i)
        ctx.sample({"unit": "exact", "shapes": [[64], [4, 16], [2, 3, 4, 4]], "dim_forms": {"(4,64)": [1, -1, 0, [0, 1]], "(3,2,4,8)": [[1, 2, 3], 3, [2, 3], 0, [0, 1, 2, 3]]}})
        return

    # ---------------------------------------------------------------- statistical unit
    ch, cplx, mode = u["channel"], u["complex"], u["mode"]
    N = 1_000_000 if q else 4_000_000
    laplace = ch == "laplacian"
    values = [1e-3, 1e-1, 1.0, 1e3] if mode == "power" else [-20.0, 0.0, 10.0, 40.0]
    in_powers = [1e-3, 1.0, 1e3] if not q else [1e-2, 1.0, 1e2]
    shapes = [(N,), (1000, N // 1000), (100, 4, 50, N // 20000)]
    cfgk = f"{ch}|{'complex' if cplx else 'real'},{mode}"
    case_i = 0
    tests = []
    for val in values:
        for ip in in_powers:
            shape = shapes[case_i % 3]
            dt = torch.float32 if case_i % 4 else torch.float64
            case_i += 1
            torch.manual_seed(seed_for("c07x", ctx.seed, ch, cplx, mode, val, ip))
            x = torch.randn(shape, dtype=dt) * math.sqrt(ip / (2 if cplx else 1))
            if cplx:
                x = torch.complex(x, torch.randn(shape, dtype=dt) * math.sqrt(ip / 2))
            try:
                chan = make_channel(ch, mode, val)
                base, y = transmit(ch, chan, x)
            except Exception as e:  # noqa: BLE001
                ctx.violation(f"{cfgk}|noise power = configured|raised:{type(e).__name__}", value=val, input_power=ip, error=str(e)[:200])
                continue
            ctx.check(tuple(y.shape) == tuple(x.shape), "shape preserved", f"{cfgk}|shape preserved|differs", got=list(y.shape), expected=list(x.shape))
            n = (y - base) if (torch.is_complex(y) == torch.is_complex(base)) else (y - torch.complex(base, torch.zeros_like(base)))
            sig_power = float((base.abs() ** 2).double().mean())
            P = val if mode == "power" else sig_power / 10 ** (val / 10)
            comps = [n.real.double().flatten(), n.imag.double().flatten()] if torch.is_complex(n) else [n.double().flatten()]
            nc = len(comps)
            total = torch.cat(comps)
            cnt = total.numel()
            ctx.case("stat", ch, cplx, mode, val, ip, nontrivial=True)
            # float32 cancellation floor when the noise is tiny relative to the signal
            eps = (6e-8 if dt == torch.float32 else 1e-16) * math.sqrt(max(sig_power, 1e-30))
            slack = 1 + 4 * eps / math.sqrt(P / nc)
            if not laplace:
                # mean: each component N(0, P/nc)
                hw = stats.gaussian_mean_halfwidth(cnt, P / nc, ALPHA) + eps
                mean = float(total.mean())
                tests.append({"test": "mean", "value": mean, "halfwidth": hw})
                ctx.note_add("statistical_tests_run")
                ctx.check(abs(mean) <= hw, "noise mean = 0", f"{cfgk}|noise mean = 0|outside exact Gaussian interval", value=val, input_power=ip, mean=mean, halfwidth=hw, seed=ctx.seed)
                lo, hi = stats.gaussian_sumsq_interval(cnt, P / nc, ALPHA)
                meas = float((total**2).mean())
                okp = lo / slack <= meas <= hi * slack
                tests.append({"test": "power", "measured_total": meas * nc, "configured": P, "interval_total": [lo * nc, hi * nc]})
            else:
                b = math.sqrt(P / nc / 2)
                hw = stats.bernstein_halfwidth(cnt, 2 * b * b, 27.7 * b, ALPHA) + eps
                mean = float(total.mean())
                ctx.note_add("statistical_tests_run")
                ctx.check(abs(mean) <= hw, "noise mean = 0", f"{cfgk}|noise mean = 0|outside Bernstein interval", value=val, input_power=ip, mean=mean, halfwidth=hw, seed=ctx.seed)
                lo, hi, clip = stats.laplace_power_interval(cnt, b, ALPHA)
                meas = float(torch.clamp(total**2, max=clip).mean())
                okp = lo / slack <= meas <= hi * slack
                tests.append({"test": "power(laplace,clipped)", "measured_total": meas * nc, "configured": P, "interval_total": [lo * nc, hi * nc]})
            ctx.note_add("statistical_tests_run")
            clause = "noise power = configured" if mode == "power" else "SNR = configured"
            sym = "measured power outside acceptance interval" + (" (ratio~2)" if abs(meas * nc / P - 2) < 0.1 else (" (ratio~0.5)" if abs(meas * nc / P - 0.5) < 0.05 else ""))
            ctx.check(okp, clause, f"{cfgk}|{clause}|{sym}", value=val, input_power=ip, measured_total_power=meas * nc, configured_noise_power=P, ratio=meas * nc / P, shape=list(shape), dtype=str(dt), seed=ctx.seed)
            if mode == "snr" and okp and P > 1e-5:
                # measuring the channel output with the library's own tools returns the configured value
                v = float(calculate_snr(base if not torch.is_complex(y) or torch.is_complex(base) else torch.complex(base, torch.zeros_like(base)), y))
                ctx.check(abs(v - val) < 0.1, "SNR tools agree", f"{cfgk}|SNR tools agree|calculate_snr(x, channel(x)) != configured", configured=val, measured=v)
            # a long-lived object whose public setting is re-assigned answers like a fresh object built with that setting
            attr = "avg_noise_power" if mode == "power" else "snr_db"
            try:
                old = make_channel(ch, mode, values[(values.index(val) + 1) % len(values)])
                if hasattr(old, attr) and isinstance(getattr(old, attr), (int, float)):
                    transmit(ch, old, x)
                    setattr(old, attr, val)
                    s = seed_for("reconf", ch, cplx, val, ip)
                    torch.manual_seed(s)
                    _, ya = transmit(ch, old, x)
                    torch.manual_seed(s)
                    _, yb = transmit(ch, make_channel(ch, mode, val), x)
                    ctx.check(ya.dtype == yb.dtype and bool(torch.equal(ya, yb)), "re-configured object = fresh object", f"{cfgk}|re-configured object = fresh object|differs under the same seed", value=val, input_power=ip, attribute=attr)
                else:
                    ctx.skip(f"{attr} is not a plain attribute")
            except Exception as e:  # noqa: BLE001
                ctx.violation(f"{cfgk}|re-configured object = fresh object|raised:{type(e).__name__}", value=val, error=str(e)[:200])
            # same-seed scaling relation between two configured values
            if mode == "power":
                v2 = val * 37.0
                s = seed_for("scale", ch, cplx, val, ip)
                torch.manual_seed(s)
                b1, y1 = transmit(ch, make_channel(ch, mode, val), x)
                torch.manual_seed(s)
                b2, y2 = transmit(ch, make_channel(ch, mode, v2), x)
                n1 = (y1 - b1) if torch.is_complex(y1) == torch.is_complex(b1) else y1 - torch.complex(b1, torch.zeros_like(b1))
                n2 = (y2 - b2) if torch.is_complex(y2) == torch.is_complex(b2) else y2 - torch.complex(b2, torch.zeros_like(b2))
                ulp = (1.2e-7 if dt == torch.float32 else 2.3e-16) * float(torch.maximum(y1.abs().max(), y2.abs().max()))
                tol = 1e-4 * float(n2.abs().max()) + 8 * eps + 8 * ulp  # y - base cancels at the peaks of the signal
                rel_ok = bool((n2 - n1 * math.sqrt(37.0)).abs().max() <= tol)
                ctx.check(rel_ok, "same-seed scaling", f"{cfgk}|same-seed scaling|noise(P2) != sqrt(P2/P1)*noise(P1)", value=val, input_power=ip)
    if not any(s.get("unit") == u["unit"] for s in ctx.samples) and len(ctx.samples) < 4:
        ctx.sample({"unit": u["unit"], "N": N, "alpha_per_test": ALPHA, "tests": tests[:6]})
