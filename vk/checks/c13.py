"""C13 - fading channels apply block-constant, correctly normalised gains: y = h.x + n."""
from __future__ import annotations

import hashlib
import math

from vk.oracles import stats

PROPERTY = "C13"
PLANNED_TESTS = 2000
ALPHA = 1e-9 / PLANNED_TESTS
RULE = (
    "Rayleigh / Rician (K in {0,0.5,3,10,100}) / log-normal and the three convenience subclasses x coherence times {1,2,3,7,L,L+1} incl. non-divisors x real/complex x shapes "
    "(L,), (B,L), (B,C,H,W) x noise by power / SNR. Exact clauses on every case: y/x constant inside each coherence block (incl. the short last one) and different across blocks, "
    "y = h.x + n for supplied csi/noise, shape preserved. Statistical clauses with x=1, zero noise, coherence 1 on N=1e6 (quick) / 4e6 (thorough) coefficients: component means and "
    "variances by exact Gaussian / chi-square tests (which decide unit mean-square gain and the Rician K-factor), independence of neighbouring blocks and of batch items by an exact "
    "Binomial sign-agreement test, noise power relative to the faded signal by a chi-square test; level 1e-9/2000 per test. Distinct = configuration; non-trivial = random coefficients."
    " Added after the seeded-fault rounds: exact detector for coefficients shared between blocks / batch items, log-normal statistical units, distribution-free median-split independence test on |h|^2."
    " Round 5: one long-lived channel per (fading, class) whose coherence_time attribute is re-assigned between calls (growing and shrinking, same and different lengths)."
)
ASSUMPTIONS = ["per-test level alpha = 1e-9/2000", "log-normal shadowing is judged on structure and shape only (the property makes no unit-gain claim for it)", "global torch generator seeded per case"]
REQUIRED = ["block-constant gain", "coefficients not shared between blocks / batch items", "y=h*x+n with supplied csi/noise", "shape preserved", "unit mean-square gain / K-factor", "independent across blocks and batch items", "noise calibrated on the faded signal"]
JOBS = {"quick": 6, "thorough": 12}
TIMEOUT = {"quick": 900, "thorough": 3600}


def units(tier, seed):
    out = [{"unit": "structure", "kind": "structure", "cost": 3}]
    for ft, K in [("rayleigh", None), ("rician", 0.0), ("rician", 0.5), ("rician", 3.0), ("rician", 10.0), ("rician", 100.0)]:
        for sub in (False, True):
            out.append({"unit": f"stat:{ft}:K={K}:{'subclass' if sub else 'flat'}", "kind": "stat", "fading": ft, "K": K, "subclass": sub, "cost": 4})
    for sub in (False, True):
        # log-normal shadowing: the property claims independence (not unit gain) for it
        out.append({"unit": f"stat:lognormal:{'subclass' if sub else 'flat'}", "kind": "stat", "fading": "lognormal", "K": None, "subclass": sub, "cost": 4})
    out.append({"unit": "noise-stage", "kind": "noise", "cost": 4})
    return out


def seed_for(*parts):
    return int(hashlib.blake2b(repr(parts).encode(), digest_size=6).hexdigest(), 16)


def make(ft, coherence, K=None, subclass=False, **noise):
    from kaira import channels as C

    if not noise:
        noise = {"avg_noise_power": 0.0}
    if subclass:
        if ft == "rayleigh":
            return C.RayleighFadingChannel(coherence_time=coherence, **noise)
        if ft == "rician":
            return C.RicianFadingChannel(k_factor=K, coherence_time=coherence, **noise)
        return C.LogNormalFadingChannel(shadow_sigma_db=4.0, coherence_time=coherence, **noise)
    kw = {}
    if ft == "rician":
        kw["k_factor"] = K
    if ft == "lognormal":
        kw["shadow_sigma_db"] = 4.0
    return C.FlatFadingChannel(ft, coherence, **kw, **noise)


def run_unit(ctx, u):
    import torch

    kind = u["kind"]
    q = ctx.tier == "quick"

    if kind == "structure":
        g = torch.Generator().manual_seed(seed_for("c13s", ctx.seed))
        reused: dict = {}
        for ft, K in (("rayleigh", None), ("rician", 3.0), ("lognormal", None)):
            for sub in (False, True):
                for shape in ((23,), (4, 23), (3, 2, 4, 5), (1, 16)):
                    Ltot = shape[0] if len(shape) == 1 else int(torch.tensor(shape[1:]).prod())
                    for coh in sorted({1, 2, 3, 7, Ltot, Ltot + 1}):
                        for cplx, mode in ((False, "fresh"), (True, "fresh"), (False, "reconfigured"), (True, "reconfigured")):
                            x = torch.randn(shape, generator=g) + 2.0
                            if cplx:
                                x = torch.complex(x, torch.randn(shape, generator=g))
                            if mode == "fresh":
                                chan = make(ft, coh, K, sub)
                            else:
                                # one long-lived object per (fading, class): its public attribute is re-assigned between
                                # calls (same and different lengths, growing and shrinking coherence times)
                                chan = reused.setdefault((ft, sub), make(ft, 5, K, sub))
                                chan.coherence_time = coh
                            torch.manual_seed(seed_for("c13s", ctx.seed, ft, sub, shape, coh, cplx, mode))
                            cfgc = f"{ft},{'subclass' if sub else 'flat'}"
                            lay = f"{len(shape)}-D,{'coh|L' if Ltot % coh == 0 else 'coh∤L'}" + (",re-configured object" if mode != "fresh" else "")
                            ctx.case("structure", ft, sub, shape, coh, cplx, mode)
                            try:
                                y = chan(x)
                            except Exception as e:  # noqa: BLE001
                                ctx.violation(f"{cfgc}|{lay}|shape preserved|raised:{type(e).__name__}", shape=list(shape), coherence=coh, error=str(e)[:200])
                                continue
                            if not ctx.check(tuple(y.shape) == tuple(x.shape), "shape preserved", f"{cfgc}|{lay}|shape preserved|differs", shape=list(shape), out=list(y.shape)):
                                continue
                            B = 1 if len(shape) == 1 else shape[0]
                            r = (y.reshape(B, Ltot) / x.reshape(B, Ltot).to(y.dtype))
                            ok = True
                            nblocks = (Ltot + coh - 1) // coh
                            for bi in range(nblocks):
                                blk = r[:, bi * coh : (bi + 1) * coh]
                                if (blk - blk[:, :1]).abs().max() > 1e-4 * (1 + blk.abs().max()):
                                    ok = False
                                if bi > 0 and (blk[:, 0] - r[:, (bi - 1) * coh]).abs().min() < 1e-7:
                                    ok = False
                            ctx.check(ok, "block-constant gain", f"{cfgc}|{lay}|block-constant gain|gain varies inside a block or repeats across blocks", shape=list(shape), coherence=coh)
                            # independently drawn coefficients are pairwise distinct with probability one: the same value in two
                            # blocks or in two batch items means a coefficient is being shared
                            firsts = r[:, ::coh].reshape(-1)
                            if firsts.numel() > 1:
                                dmat = (firsts[:, None] - firsts[None, :]).abs() + torch.eye(firsts.numel())
                                shared = bool((dmat < 1e-7).any())
                                ctx.check(not shared, "coefficients not shared between blocks / batch items", f"{cfgc}|{lay}|coefficients not shared between blocks / batch items|identical coefficient in two places", shape=list(shape), coherence=coh, batch=B)
                            if mode != "fresh":
                                continue
                            # supplied csi and noise
                            h = torch.complex(torch.randn(B, Ltot, generator=g), torch.randn(B, Ltot, generator=g))
                            nz = torch.complex(torch.randn(B, Ltot, generator=g), torch.randn(B, Ltot, generator=g)) * 0.1
                            chan2 = make(ft, coh, K, sub, snr_db=10.0)
                            y2 = chan2(x, csi=h, noise=nz)
                            xc = x.reshape(B, Ltot)
                            xc = xc if torch.is_complex(xc) else torch.complex(xc, torch.zeros_like(xc))
                            exp = (h * xc + nz).reshape(shape)
                            ctx.check(tuple(y2.shape) == tuple(shape) and bool(torch.allclose(y2, exp, rtol=1e-6, atol=1e-6)), "y=h*x+n with supplied csi/noise", f"{cfgc}|{lay}|y=h*x+n with supplied csi/noise|differs", shape=list(shape))
        ctx.sample({"unit": "structure", "coherence_times": "1,2,3,7,L,L+1", "shapes": [[23], [4, 23], [3, 2, 4, 5], [1, 16]]})
        return

    if kind == "stat":
        ft, K, sub = u["fading"], u["K"], u["subclass"]
        N = 1_000_000 if q else 4_000_000
        B, L = 1000, N // 1000
        torch.manual_seed(seed_for("c13t", ctx.seed, ft, K, sub))
        chan = make(ft, 1, K, sub)
        h = chan(torch.ones(B, L))
        ctx.case("stat", ft, K, sub)
        Kv = 0.0 if ft in ("rayleigh", "lognormal") else K
        mu = math.sqrt(Kv / (Kv + 1))
        s2 = 1.0 / (2 * (Kv + 1))
        hr, hi = h.real.double(), h.imag.double()
        cfgc = f"{ft}{'' if ft == 'rayleigh' else ',K>0' if Kv > 0 else ',K=0'},{'subclass' if sub else 'flat'}"
        tests = []

        def rec(name, ok, **kw):
            tests.append(dict(test=name, ok=bool(ok), **kw))
            ctx.note_add("statistical_tests_run")

        if ft == "lognormal":
            cfgc = f"lognormal,{'subclass' if sub else 'flat'}"
        hw = stats.gaussian_mean_halfwidth(N, s2, ALPHA)
        m_r, m_i = float(hr.mean()), float(hi.mean())
        ok = abs(m_r - mu) <= hw + 1e-6 and abs(m_i) <= hw + 1e-6
        gain_claim = ft != "lognormal"
        if gain_claim:
            rec("component means (LOS amplitude)", ok, mean_real=m_r, mean_imag=m_i, expected_real=mu, halfwidth=hw)
        ctx.check(ok or not gain_claim, "unit mean-square gain / K-factor", f"{cfgc}|coefficients|unit mean-square gain / K-factor|line-of-sight amplitude outside exact Gaussian interval", mean_real=m_r, mean_imag=m_i, expected=mu, halfwidth=hw, seed=ctx.seed)
        lo, hi_ = stats.gaussian_sumsq_interval(N, s2, ALPHA)
        v_r, v_i = float(((hr - mu) ** 2).mean()), float((hi**2).mean())
        ok = lo * (1 - 1e-5) <= v_r <= hi_ * (1 + 1e-5) and lo * (1 - 1e-5) <= v_i <= hi_ * (1 + 1e-5)
        if gain_claim:
            rec("scattered variance per component", ok, var_real=v_r, var_imag=v_i, expected=s2, interval=[lo, hi_])
        ctx.check(ok or not gain_claim, "unit mean-square gain / K-factor", f"{cfgc}|coefficients|unit mean-square gain / K-factor|scattered power outside exact chi-square interval", var_real=v_r, var_imag=v_i, expected=s2, interval=[lo, hi_], mean_square_gain=float((h.abs() ** 2).double().mean()), seed=ctx.seed)
        # independence: sign agreement of centred components ~ Bin(M, 1/2)
        a = hr - mu
        for name, p1, p2 in (("neighbouring blocks", a[:, 1:], a[:, :-1]), ("batch items", a[1:, :], a[:-1, :]), ("real vs imag", a, hi)):
            agree = int(((p1 > 0) == (p2 > 0)).sum())
            M = p1.numel()
            lo_k, hi_k = stats.binom_count_interval(M, 0.5, ALPHA)
            ok = lo_k <= agree <= hi_k
            rec(f"sign agreement: {name}", ok, agree=agree, M=M, interval=[lo_k, hi_k])
            ctx.check(ok, "independent across blocks and batch items", f"{cfgc}|coefficients|independent across blocks and batch items|dependence between {name}", agree=agree, M=M, interval=[lo_k, hi_k], seed=ctx.seed)
        # independence of the *magnitudes* (a gain factor shared by neighbours leaves the signs independent): agreement of
        # the indicators |h|^2 > pooled median ~ Bin(M, 1/2) under independence (distribution-free)
        p2 = (h.abs() ** 2).double()
        above = p2 > p2.median()
        for name, q1, q2 in (("magnitudes of neighbouring blocks", above[:, 1:], above[:, :-1]), ("magnitudes of batch items", above[1:, :], above[:-1, :])):
            agree = int((q1 == q2).sum())
            M = q1.numel()
            lo_k, hi_k = stats.binom_count_interval(M, 0.5, ALPHA)
            ok = lo_k <= agree <= hi_k
            rec(f"median-split agreement: {name}", ok, agree=agree, M=M, interval=[lo_k, hi_k])
            ctx.check(ok, "independent across blocks and batch items", f"{cfgc}|coefficients|independent across blocks and batch items|dependence between {name}", agree=agree, M=M, interval=[lo_k, hi_k], seed=ctx.seed)
        ctx.sample({"unit": u["unit"], "N": N, "alpha_per_test": ALPHA, "tests": tests})
        return

    if kind == "noise":
        N = 1_000_000 if q else 4_000_000
        B, L = 100, N // 100
        for ft, K in (("rayleigh", None), ("rician", 3.0)):
            for mode, val in (("power", 0.5), ("power", 1e-2), ("snr", 0.0), ("snr", 20.0)):
                for cplx in (False, True):
                    torch.manual_seed(seed_for("c13n", ctx.seed, ft, mode, val, cplx))
                    x = torch.randn(B, L) * 1.7
                    if cplx:
                        x = torch.complex(x, torch.randn(B, L))
                    h = torch.complex(torch.randn(B, L), torch.randn(B, L)) * 0.8
                    chan = make(ft, 4, K, False, **({"avg_noise_power": val} if mode == "power" else {"snr_db": val}))
                    y = chan(x, csi=h)
                    xc = x if cplx else torch.complex(x, torch.zeros_like(x))
                    faded = h * xc
                    n = (y - faded)
                    Pf = float((faded.abs() ** 2).double().mean())
                    P = val if mode == "power" else Pf / 10 ** (val / 10)
                    tot = torch.cat([n.real.double().flatten(), n.imag.double().flatten()])
                    lo, hi_ = stats.gaussian_sumsq_interval(tot.numel(), P / 2, ALPHA)
                    meas = float((tot**2).mean())
                    slack = 1 + 1e-4 + 5e-7 * math.sqrt(Pf / P)
                    ctx.case("noise", ft, mode, val, cplx)
                    ctx.note_add("statistical_tests_run")
                    ctx.check(lo / slack <= meas <= hi_ * slack, "noise calibrated on the faded signal", f"{ft}|{'complex' if cplx else 'real'},{mode}|noise calibrated on the faded signal|noise power outside chi-square interval", configured=val, measured_total=2 * meas, expected_total=P, faded_power=Pf, input_power=float((xc.abs() ** 2).mean()), seed=ctx.seed)
        ctx.sample({"unit": "noise-stage", "N": N, "modes": ["power 0.5", "power 1e-2", "snr 0 dB", "snr 20 dB"]})
        return
    raise ValueError(kind)
