"""C14 - constellations are bijectively labelled, normalised, Gray-coded when requested; Gray
utilities are mutually inverse bijections with unit-distance steps."""
from __future__ import annotations

import random

from vk.workloads import modems

PROPERTY = "C14"
RULE = (
    "every scheme/order/option that publishes a constellation: effective mapping obtained by driving the real modulator with all 2^b bit groups, compared with the published "
    "tables; every nearest-neighbour pair for the Gray clause; Gray utilities on all n<2^16 (exhaustive) and seeded n<2^60, scalar, list and tensor forms. "
    "Distinct = (scheme configuration, clause) / integer n; non-trivial = n>0 or a constructed constellation."
    " Added after the seeded-fault rounds: array forms with values up to 2^50 (lists, int64, float64)."
    " Round 5: modem form axis (deep copy, .double().float(), state_dict twin)."
)
ASSUMPTIONS = ["nearest neighbours are pairs at distance <= d_min*(1+1e-4)", "energy tolerance 1e-5 (float32 tables)", "DPSK-type schemes are judged on their phase-increment constellation, pi/4-QPSK on each of its two alternating constellations, OQPSK per branch"]
REQUIRED = ["bijective labelling", "unit mean energy", "gray:neighbours differ in one bit", "published tables = effective mapping", "gray_utils:roundtrip", "gray_utils:consecutive distance 1", "gray_utils:injective", "gray_utils:array=scalar"]
JOBS = {"quick": 4, "thorough": 8}
TIMEOUT = {"quick": 900, "thorough": 3600}
EXHAUSTIVE_NOTE = "Gray utilities on every n < 2^16; every nearest-neighbour pair of every constellation"
HARD = {512, 1022, 1023, 1365, 1638}  # neighbourhood of the hard-coded pair binary_to_gray(1023)=1365 (true pre-image of 1365 is 1638, true image of 1023 is 512)


def units(tier, seed):
    out = [{"unit": f"const:{modems.cfg(s)}", "kind": "const", "spec": s, "cost": 1 + s.get("order", 4) / 64} for s in modems.catalogue(tier) if s["scheme"] != "identity"]
    for lo in range(0, 1 << 16, 1 << 14):
        out.append({"unit": f"gray:exh:{lo}", "kind": "gray_exh", "lo": lo, "hi": lo + (1 << 14), "cost": 6})
    out.append({"unit": "gray:random", "kind": "gray_rand", "count": 20_000 if tier == "quick" else 200_000, "cost": 6})
    out.append({"unit": "gray:arrays", "kind": "gray_arrays", "cost": 3})
    return out


def _popcount(x):
    return bin(x).count("1")


def _check_set(ctx, s, kc, name, mapping, gray_requested, check_energy):
    """mapping: label tuple -> complex point."""
    labels = list(mapping)
    pts = [mapping[l] for l in labels]
    b = len(labels[0])
    dists = {}
    dmin = float("inf")
    for i in range(len(pts)):
        for j in range(i + 1, len(pts)):
            d = abs(pts[i] - pts[j])
            dists[(i, j)] = d
            dmin = min(dmin, d)
    scale = max(abs(p) for p in pts) or 1.0
    ok = len(set(labels)) == 2**b and len(labels) == 2**b and dmin > 1e-4 * scale
    ctx.check(ok, "bijective labelling", f"{kc}|{name}|bijective labelling|{'coincident points' if dmin <= 1e-4 * scale else 'missing labels'}", spec=s, points=len(pts), dmin=dmin)
    if check_energy:
        e = sum(abs(p) ** 2 for p in pts) / len(pts)
        ctx.check(abs(e - 1.0) < 1e-5, "unit mean energy", f"{kc}|{name}|unit mean energy|differs", spec=s, energy=e)
    if gray_requested and len(pts) > 2:
        bad = None
        npairs = 0
        for (i, j), d in dists.items():
            if d <= dmin * (1 + 1e-4):
                npairs += 1
                hd = sum(a != c for a, c in zip(labels[i], labels[j]))
                if hd != 1 and bad is None:
                    bad = (labels[i], labels[j], hd)
        if bad is None:
            ctx.ok("gray:neighbours differ in one bit", npairs)
        else:
            ctx.violation(f"{kc}|{name}|gray:neighbours differ in one bit|neighbours differ in more bits", spec=s, label_a=bad[0], label_b=bad[1], hamming=bad[2])


def run_unit(ctx, u):
    import torch

    kind = u["kind"]
    if kind == "const":
        s = u["spec"]
        kc = modems.cfg_class(s)
        sc = s["scheme"]
        mod, dem = modems.build(s)
        eff = modems.effective_constellation(s, mod)
        ctx.case("const", modems.cfg(s))
        gray = bool(s.get("gray")) or sc == "dqpsk"
        normalized = sc in ("psk", "bpsk", "dpsk", "dbpsk", "dqpsk", "pi4qpsk") or bool(s.get("normalize"))
        if sc in ("dpsk", "dbpsk", "dqpsk"):
            spread = eff.pop("_spread", 0.0)
            ctx.check(spread < 1e-5, "differential increment independent of previous symbol", f"{kc}|increments|differential increment independent of previous symbol|depends", spec=s, spread=spread)
            _check_set(ctx, s, kc, "increments", eff, gray, True)
            table = {tuple(int(v) for v in mod.bit_patterns[i].tolist()): complex(mod.constellation[i].item()) for i in range(len(mod.constellation))}
            same = all(abs(table.get(l, 1e9) - p) < 1e-5 for l, p in eff.items())
            ctx.check(same, "published tables = effective mapping", f"{kc}|increments|published tables = effective mapping|differs", spec=s, effective={str(k): v for k, v in eff.items()}, table={str(k): v for k, v in table.items()})
        elif sc == "pi4qpsk":
            for par in ("even", "odd"):
                _check_set(ctx, s, kc, par, eff[par], gray, True)
            table = {tuple(int(v) for v in mod.bit_patterns[i].tolist()): complex(mod.qpsk[i].item()) for i in range(4)}
            table_r = {tuple(int(v) for v in mod.bit_patterns[i].tolist()): complex(mod.qpsk_rotated[i].item()) for i in range(4)}
            same = all(abs(table[l] - p) < 1e-5 for l, p in eff["even"].items()) and all(abs(table_r[l] - p) < 1e-5 for l, p in eff["odd"].items())
            ctx.check(same, "published tables = effective mapping", f"{kc}|even/odd|published tables = effective mapping|differs", spec=s, effective={k: {str(l): p for l, p in v.items()} for k, v in eff.items()})
        elif sc == "oqpsk":
            comb = {(a[0], c[0]): complex(eff["I"][a].real, eff["Q"][c].real) for a in eff["I"] for c in eff["Q"]}
            _check_set(ctx, s, kc, "I/Q", comb, False, bool(s.get("normalize")))
            table = {tuple(int(v) for v in mod.bit_patterns[i].tolist()): complex(mod.constellation[i].item()) for i in range(4)}
            same = all(abs(table[l] - p) < 1e-5 for l, p in comb.items())
            ctx.check(same, "published tables = effective mapping", f"{kc}|I/Q|published tables = effective mapping|differs", spec=s)
        else:
            _check_set(ctx, s, kc, "points", eff, gray, normalized)
            if hasattr(mod, "bit_patterns") and hasattr(mod, "constellation"):
                table = {tuple(int(v) for v in mod.bit_patterns[i].tolist()): complex(mod.constellation[i].item()) for i in range(len(mod.constellation))}
                same = len(table) == len(eff) and all(abs(table.get(l, 1e9) - p) < 1e-5 for l, p in eff.items())
                ctx.check(same, "published tables = effective mapping", f"{kc}|points|published tables = effective mapping|differs", spec=s)
            elif sc == "bpsk":
                ok = abs(eff[(0,)] - complex(mod.constellation[0].item())) < 1e-6 and abs(eff[(1,)] - complex(mod.constellation[1].item())) < 1e-6
                ctx.check(ok, "published tables = effective mapping", f"{kc}|points|published tables = effective mapping|differs", spec=s)
        if s["id"] % 15 == 0:
            ctx.sample({"scheme": modems.cfg(s), "effective_constellation": {str(k): v for k, v in (eff.items() if sc not in ("pi4qpsk", "oqpsk") else eff[list(eff)[0]].items())} if s.get("order", 4) <= 8 else f"{2**modems.bits_per_symbol(s)} points"})
        return

    from kaira.modulations.utils import binary_array_to_gray, binary_to_gray, gray_array_to_binary, gray_to_binary

    def classify(ns):
        return "only around the hard-coded pair (1023 -> 1365)" if set(ns) <= HARD else "other integers"

    if kind in ("gray_exh", "gray_rand"):
        rng = random.Random(f"c14-{ctx.seed}")
        if kind == "gray_exh":
            ns = range(u["lo"], u["hi"])
        else:
            ns = [rng.getrandbits(rng.randint(1, 60)) for _ in range(u["count"])]
        bad_rt, bad_step, bad_ref = [], [], []
        seen = {}
        bad_inj = []
        for n in ns:
            g = binary_to_gray(n)
            ctx.case("gray", n, nontrivial=n > 0)
            if gray_to_binary(g) != n:
                bad_rt.append(n)
            g2 = binary_to_gray(n + 1)
            if _popcount(g ^ g2) != 1:
                bad_step.append(n)
            if g in seen and seen[g] != n:
                bad_inj += [n, seen[g]]
            seen[g] = n
            if binary_to_gray(gray_to_binary(n)) != n:
                bad_rt.append(n)
        cnt = len(seen)
        for name, bad in (("gray_utils:roundtrip", bad_rt), ("gray_utils:consecutive distance 1", bad_step), ("gray_utils:injective", bad_inj)):
            if bad:
                ctx.ok(name, cnt - len(bad))
                ctx.violation(f"gray_utils|scalar|{name}|{classify(bad)}", failing_n=sorted(set(bad))[:10])
            else:
                ctx.ok(name, cnt)
        if kind == "gray_exh":
            ctx.exhaustive_units += 1
        ctx.sample({"unit": u["unit"], "integers": cnt, "example": {"n": 6, "gray": binary_to_gray(6)}})
        return
    if kind == "gray_arrays":
        rng = random.Random(f"c14a-{ctx.seed}")
        for form in ("list", "int64", "int32", "float32", "float64"):
            for trial in range(20):
                hi = 2**20 if form not in ("float32",) else 2**16
                if trial >= 14 and form in ("list", "int64", "float64"):
                    hi = 2**50  # exactly representable in float64, beyond 32-bit integers
                ns = [rng.randrange(hi) for _ in range(rng.randint(1, 50))]
                if trial == 0:
                    ns = list(range(0, 40))
                if trial == 19 and form in ("list", "int64", "float64"):
                    ns = [2**31 - 1, 2**31, 2**31 + 1, 2**32, 2**40 + 5]
                arg = ns if form == "list" else torch.tensor(ns, dtype=getattr(torch, form))
                ctx.case("arr", form, tuple(ns))
                try:
                    g = binary_array_to_gray(arg)
                    bback = gray_array_to_binary(arg)
                except Exception as e:  # noqa: BLE001
                    ctx.violation(f"gray_utils|array:{form}|gray_utils:array=scalar|raised:{type(e).__name__}", error=str(e)[:200])
                    continue
                exp_g = [binary_to_gray(n) for n in ns]
                exp_b = [gray_to_binary(n) for n in ns]
                ok = [int(v) for v in g.tolist()] == exp_g and [int(v) for v in bback.tolist()] == exp_b
                ctx.check(ok, "gray_utils:array=scalar", f"gray_utils|array:{form}|gray_utils:array=scalar|differs", ns=ns[:10], got=g.tolist()[:10], expected=exp_g[:10])
        e1 = binary_array_to_gray([])
        ctx.check(e1.numel() == 0, "gray_utils:array=scalar", "gray_utils|array:empty|gray_utils:array=scalar|differs")
        ctx.sample({"unit": "gray:arrays", "forms": ["list", "int64", "int32", "float32", "float64"]})
        return
    raise ValueError(kind)
