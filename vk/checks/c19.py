"""C19 - DeepJSCC pipelines are differentiable end to end and keep their shape contract."""
from __future__ import annotations

import hashlib
import math
import random

PROPERTY = "C19"
RULE = (
    "Part A: every analog channel (AWGN, Laplacian, phase-noise, flat fading x3, nonlinear direct/cartesian/polar; power and SNR parameterisations) and every power constraint (Total, "
    "Average, PAPR with and without active clipping, PerAntenna, composites) in float64 under a frozen RNG, real and complex, shapes (B,N) and (B,C,H,W): analytic directional "
    "derivative vs central finite difference (eps=1e-3, 8 random directions, random cotangent), backward under autograd anomaly mode. Part B: published DeepJSCC encoder/decoder pairs "
    "(Bourtsoulatze2019, Tung2022 Q and Q2, Kurka2020 feedback enc/dec, Yilmaz2023 NOMA, Yilmaz2024 WZ small) x image sizes {16,32,48,64} x batch sizes {1,2,5}: output shape = input "
    "shape, documented range, latent size = documented bandwidth ratio, and after loss.backward() through constraint + channel + decoder every encoder parameter has a finite, "
    "non-vanishing gradient. Distinct = (stage configuration, input seed) / (architecture, image size, batch size); non-trivial = random non-constant input."
    " Added after the seeded-fault rounds: bandwidth-ratio formula for n=1..5 strided layers and formula-built encoders, grayscale / 4-channel DeepJSCC-Q pairs, forward/backward asymmetry kink guard of the finite-difference oracle."
)
ASSUMPTIONS = [
    "finite-difference comparison accepted at relative error <= 5e-3 (SNR paths round the noise power to float32, which floors the comparison near 1e-4); torch.gradcheck defaults would false-alarm",
    "inputs within 10*eps of a non-differentiable point (clipping boundary, zero magnitude for polar mode) are regenerated",
    "a parameter is required to receive a non-zero gradient if it does for at least one of three seeds of a reference run on freshly initialised weights (i.e. it is on the input->output path)",
    "image sizes an architecture cannot process (not a multiple of its total stride) are recorded as rejected",
]
REQUIRED = ["channel:gradient = finite difference", "constraint:gradient = finite difference", "backward finite (anomaly mode)", "deepjscc:output shape = input shape", "deepjscc:latent = bandwidth ratio", "deepjscc:every encoder parameter gets a finite non-zero gradient"]
JOBS = {"quick": 8, "thorough": 16}
TIMEOUT = {"quick": 1200, "thorough": 5400}


def units(tier, seed):
    out = []
    for name in ("awgn", "laplacian", "phase", "fading-rayleigh", "fading-rician", "fading-lognormal", "nonlinear-direct", "nonlinear-cartesian", "nonlinear-polar"):
        out.append({"unit": f"channel:{name}", "kind": "channel", "name": name, "cost": 2})
    for name in ("total", "average", "papr-inactive", "papr-active", "perantenna", "composite"):
        out.append({"unit": f"constraint:{name}", "kind": "constraint", "name": name, "cost": 2})
    out.append({"unit": "bandwidth-ratio-formula", "kind": "formula", "cost": 3})
    for arch in ("bourtsoulatze2019", "tung2022q", "tung2022q2", "kurka2020", "yilmaz2023noma", "yilmaz2024wz"):
        for size in (16, 32, 48, 64):
            out.append({"unit": f"deepjscc:{arch}:{size}", "kind": "deepjscc", "arch": arch, "size": size, "cost": 4 + size / 8 + (20 if arch == "kurka2020" else 0)})
    return out


def seed_for(*parts):
    return int(hashlib.blake2b(repr(parts).encode(), digest_size=6).hexdigest(), 16)


def fd_check(ctx, clause, key, f, x_parts, seed, signature=None, ndir=8, eps=1e-3):
    """x_parts: list of float64 leaf tensors (real [and imaginary] part). f(list)->tensor.  Returns True if judged."""
    import torch

    def S(parts, w):
        torch.manual_seed(seed)
        y = f(parts)
        return ((w.conj() * y).real.sum() if torch.is_complex(y) else (w * y).sum()), y

    parts = [p.clone().requires_grad_(True) for p in x_parts]
    torch.manual_seed(seed)
    y0 = f(parts)
    g = torch.Generator().manual_seed(seed + 1)
    w = torch.randn(y0.shape, generator=g, dtype=torch.float64)
    if torch.is_complex(y0):
        w = torch.complex(w, torch.randn(y0.shape, generator=g, dtype=torch.float64))
    try:
        with torch.autograd.set_detect_anomaly(True):
            s, y = S(parts, w)
            grads = torch.autograd.grad(s, parts, allow_unused=True)
    except Exception as e:  # noqa: BLE001
        ctx.violation(f"{key}|backward finite (anomaly mode)|raised:{type(e).__name__}", error=str(e)[:300])
        return True
    grads = [gr if gr is not None else torch.zeros_like(p) for gr, p in zip(grads, parts)]
    finite = all(bool(torch.isfinite(gr).all()) for gr in grads) and bool(torch.isfinite(y).all() if not torch.is_complex(y) else torch.isfinite(torch.view_as_real(y)).all())
    ctx.check(finite, "backward finite (anomaly mode)", f"{key}|backward finite (anomaly mode)|non-finite gradient or output")
    worst = 0.0
    wit = None
    judged = 0
    with torch.no_grad():
        base, _ = S(list(x_parts), w)
    for d_i in range(ndir):
        dirs = [torch.randn(p.shape, generator=g, dtype=torch.float64) for p in parts]
        if signature is not None:
            # kink guard: the discrete state of the stage (e.g. which samples get clipped) must not change within 10*eps
            with torch.no_grad():
                s0 = signature(x_parts)
                if any(signature([p + sg * 10 * eps * d for p, d in zip(x_parts, dirs)]) != s0 for sg in (1, -1)):
                    ctx.skip("direction crosses a non-differentiable point within 10*eps")
                    continue
        with torch.no_grad():
            plus, _ = S([p + eps * d for p, d in zip(x_parts, dirs)], w)
            minus, _ = S([p - eps * d for p, d in zip(x_parts, dirs)], w)
        fd = float((plus - minus) / (2 * eps))
        an = float(sum((gr * d).sum() for gr, d in zip(grads, dirs)))
        # the comparison is relative to the size a directional derivative can have here (Cauchy-Schwarz), so that a
        # direction that happens to be almost orthogonal to the gradient is not judged on float32 rounding noise
        gnorm = math.sqrt(sum(float((gr**2).sum()) for gr in grads))
        dnorm = math.sqrt(sum(float((d**2).sum()) for d in dirs))
        scale = max(abs(fd), abs(an), 1e-2 * gnorm * dnorm, 1e-12)
        # generic kink guard: a smooth neighbourhood gives the same central difference at eps and eps/4
        with torch.no_grad():
            p4, _ = S([p + eps / 4 * d for p, d in zip(x_parts, dirs)], w)
            m4, _ = S([p - eps / 4 * d for p, d in zip(x_parts, dirs)], w)
        fd4 = float((p4 - m4) / (eps / 2))
        if abs(fd4 - fd) > 2e-3 * scale:
            ctx.skip("finite differences at eps and eps/4 disagree: non-smooth neighbourhood")
            continue
        # a kink much closer to the point than eps/4 makes both central differences equal the *mean* of the two
        # one-sided slopes; it shows as a forward/backward asymmetry that does not shrink with eps (curvature
        # shrinks it by 4). Function values only: a wrong analytic gradient cannot hide behind this guard.
        asym = abs(float((plus - base) / eps) - float((base - minus) / eps))
        asym4 = abs(float((p4 - base) / (eps / 4)) - float((base - m4) / (eps / 4)))
        if asym > 2e-3 * scale and asym4 > 0.5 * asym:
            ctx.skip("one-sided differences disagree at eps and eps/4: kink next to the point")
            continue
        rel = abs(fd - an) / scale
        judged += 1
        if rel > worst:
            worst, wit = rel, {"finite_difference": fd, "analytic": an}
    if judged == 0:
        ctx.skip("no smooth direction available for this input")
        return True
    ctx.note_add("finite_difference_directions_compared", judged)
    ok = worst <= 5e-3
    ctx.check(ok, clause, f"{key}|{clause}|{'analytic gradient is zero (detached graph)' if wit and wit['analytic'] == 0 and abs(wit['finite_difference']) > 0 else 'differs from finite difference'}", relative_error=worst, **(wit or {}))
    return True


def run_unit(ctx, u):
    import torch

    from kaira import channels as C
    from kaira import constraints as K

    kind = u["kind"]
    rng = random.Random(f"c19-{ctx.seed}-{u['unit']}")
    q = ctx.tier == "quick"
    torch.set_default_dtype(torch.float32)

    def rand_parts(shape, cplx, seed, scale=1.0):
        g = torch.Generator().manual_seed(seed)
        re = torch.randn(shape, generator=g, dtype=torch.float64) * scale
        if cplx:
            return [re, torch.randn(shape, generator=g, dtype=torch.float64) * scale]
        return [re]

    def assemble(parts):
        return torch.complex(parts[0], parts[1]) if len(parts) == 2 else parts[0]

    if kind == "channel":
        name = u["name"]
        nonlin = lambda t: torch.tanh(t) if not torch.is_complex(t) else t / (1 + t.abs() ** 2)  # noqa: E731
        for mode, val in (("power", 0.1), ("snr", 7.0)):
            kw = {"avg_noise_power": val} if mode == "power" else {"snr_db": val}
            if name == "awgn":
                mk = lambda: C.AWGNChannel(**kw)  # noqa: E731
            elif name == "laplacian":
                mk = lambda: C.LaplacianChannel(**kw)  # noqa: E731
            elif name == "phase":
                mk = lambda: C.PhaseNoiseChannel(0.3 if mode == "power" else 0.05)  # noqa: E731
            elif name.startswith("fading"):
                ft = name.split("-")[1]
                extra = {"k_factor": 3.0} if ft == "rician" else ({"shadow_sigma_db": 4.0} if ft == "lognormal" else {})
                mk = lambda: C.FlatFadingChannel(ft, 3, **extra, **kw)  # noqa: E731
            else:
                cm = name.split("-")[1]
                mk = lambda: C.NonlinearChannel(nonlin if cm == "direct" else torch.tanh, add_noise=True, complex_mode=cm, **kw)  # noqa: E731
            for cplx in (False, True):
                for shape in ((3, 16), (2, 2, 4, 4)):
                    for rep in range(1 if q else 4):
                        seed = seed_for("c19c", ctx.seed, name, mode, cplx, shape, rep)
                        parts = rand_parts(shape, cplx, seed, scale=1.3)
                        if name == "nonlinear-polar" and cplx:
                            parts[0] = parts[0] + 3.0  # keep away from zero magnitude
                        chan = mk()
                        ctx.case("channel", name, mode, cplx, shape, rep)
                        fd_check(ctx, "channel:gradient = finite difference", f"{name}|{'complex' if cplx else 'real'},{mode}", lambda ps: chan(assemble(ps)), parts, seed)
        ctx.sample({"unit": u["unit"], "modes": ["avg_noise_power=0.1", "snr_db=7"], "shapes": [[3, 16], [2, 2, 4, 4]], "eps": 1e-3, "directions": 8})
        return

    if kind == "constraint":
        name = u["name"]
        for cplx in (False, True):
            for shape in ((3, 16), (1, 16), (2, 3, 8), (2, 2, 4, 4)):
                for rep in range(1 if q else 4):
                    seed = seed_for("c19k", ctx.seed, name, cplx, shape, rep)
                    parts = rand_parts(shape, cplx, seed, scale=2.0)
                    if name == "total":
                        c = K.TotalPowerConstraint(3.0)
                    elif name == "average":
                        c = K.AveragePowerConstraint(0.7)
                    elif name == "papr-inactive":
                        c = K.PAPRConstraint(max_papr=1e3)
                    elif name == "papr-active":
                        c = K.PAPRConstraint(max_papr=2.0)
                    elif name == "perantenna":
                        if len(shape) < 3:
                            continue
                        c = K.PerAntennaPowerConstraint(uniform_power=1.5)
                    else:
                        c = K.CompositeConstraint([K.AveragePowerConstraint(2.0), K.PAPRConstraint(max_papr=1e3), K.TotalPowerConstraint(5.0)])
                    sig = None
                    if name == "papr-active":
                        def sig(ps, c=c):
                            x = assemble(ps)
                            y = c(x)
                            r = (y.abs() / x.abs().clamp_min(1e-12))
                            # which samples were clipped, and into how many distinct clipping levels (iterations)
                            return (tuple((r < 1 - 1e-9).flatten().tolist()), len(set((y.abs()[r < 1 - 1e-9] * 1e6).round().flatten().tolist())))

                        if not any(sig(parts)[0]):
                            ctx.skip("clipping not active for this input")
                            continue
                    ctx.case("constraint", name, cplx, shape, rep)
                    fd_check(ctx, "constraint:gradient = finite difference", f"{name}|{'complex' if cplx else 'real'}", lambda ps: c(assemble(ps)), parts, seed, signature=sig)
        ctx.sample({"unit": u["unit"], "shapes": [[3, 16], [1, 16], [2, 3, 8], [2, 2, 4, 4]]})
        return

    if kind == "formula":
        from fractions import Fraction

        from kaira.utils import calculate_num_filters_factor_image

        for n in range(1, 6):
            for ch in (1, 3):
                for rho in (Fraction(1, 12), Fraction(1, 6), Fraction(1, 4), Fraction(1, 3), Fraction(1, 2), Fraction(1), Fraction(2)):
                    for cplx in (False, True):
                        exp = ch * 4**n * rho * (2 if cplx else 1)
                        ctx.case("formula", n, ch, rho, cplx)
                        try:
                            got = calculate_num_filters_factor_image(n, float(rho), channels=ch, is_complex_transmission=cplx)
                        except AssertionError:
                            ctx.check(exp.denominator != 1 or abs(float(exp) - float(rho) * ch * 4**n * (2 if cplx else 1)) > 1e-9, "deepjscc:latent = bandwidth ratio", f"calculate_num_filters_factor_image|n={'<=2' if n <= 2 else '>=3'}|deepjscc:latent = bandwidth ratio|rejected an integer filter count", n=n, channels=ch, ratio=str(rho))
                            continue
                        if exp.denominator == 1:
                            ctx.check(got == int(exp), "deepjscc:latent = bandwidth ratio", f"calculate_num_filters_factor_image|n={'<=2' if n <= 2 else '>=3'}|deepjscc:latent = bandwidth ratio|filter count does not give the requested ratio", n=n, channels=ch, ratio=str(rho), complex=cplx, got=got, expected=int(exp))
        # functional: an encoder with n strided layers built from the formula really has that ratio
        from kaira.models.image.bourtsoulatze2019_deepjscc import Bourtsoulatze2019DeepJSCCEncoder
        from kaira.models.image.tung2022_deepjscc_q import Tung2022DeepJSCCQEncoder

        x = torch.rand(2, 3, 32, 32)
        for rho in (1 / 6, 1 / 12, 1 / 3):
            c2 = calculate_num_filters_factor_image(2, rho)
            z = Bourtsoulatze2019DeepJSCCEncoder(c2)(x)
            ctx.check(abs(z.numel() / x.numel() - rho) < 1e-9, "deepjscc:latent = bandwidth ratio", "bourtsoulatze2019|formula-built encoder|deepjscc:latent = bandwidth ratio|differs", ratio=rho, latent=list(z.shape))
            c4 = calculate_num_filters_factor_image(4, rho)
            z = Tung2022DeepJSCCQEncoder(N=16, M=c4)(x)
            ctx.check(abs(z.numel() / x.numel() - rho) < 1e-9, "deepjscc:latent = bandwidth ratio", "tung2022q|formula-built encoder|deepjscc:latent = bandwidth ratio|differs", ratio=rho, latent=list(z.shape), M=c4)
        # the documented channel-count options: a grayscale or 4-channel encoder/decoder pair returns the input's shape
        from kaira.models.image import tung2022_deepjscc_q as TQ

        for cch in (1, 4):
            for size in (16, 32):
                xg = torch.rand(2, cch, size, size)
                csi = torch.full((2, 1), 10.0)
                for nm_, mk in (
                    ("tung2022q", lambda: (TQ.Tung2022DeepJSCCQEncoder(N=16, M=8, in_ch=cch), TQ.Tung2022DeepJSCCQDecoder(N=16, M=8, out_ch=cch), False)),
                    ("tung2022q2", lambda: (TQ.Tung2022DeepJSCCQ2Encoder(N=16, M=8, in_ch=cch), TQ.Tung2022DeepJSCCQ2Decoder(N=16, M=8, out_ch=cch), True)),
                ):
                    ctx.case("channels", nm_, cch, size)
                    try:
                        e_, d_, needs_csi = mk()
                        out = d_(e_(xg, csi), csi) if needs_csi else d_(e_(xg))
                    except Exception as e:  # noqa: BLE001
                        ctx.violation(f"{nm_}|in_ch=out_ch!=3|deepjscc:output shape = input shape|raised:{type(e).__name__}", channels=cch, size=size, error=str(e)[:200])
                        continue
                    ctx.check(tuple(out.shape) == tuple(xg.shape), "deepjscc:output shape = input shape", f"{nm_}|in_ch=out_ch!=3|deepjscc:output shape = input shape|differs", input=list(xg.shape), output=list(out.shape))
        ctx.sample({"unit": "bandwidth-ratio-formula", "strided_layers": [1, 2, 3, 4, 5], "ratios": ["1/12", "1/6", "1/4", "1/3", "1/2", "1", "2"]})
        return

    # ---------------------------------------------------------------- DeepJSCC architectures
    arch, size = u["arch"], u["size"]
    from kaira.models.deepjscc import DeepJSCCModel
    from kaira.utils import calculate_num_filters_factor_image

    def build(seed):
        torch.manual_seed(seed)
        if arch == "bourtsoulatze2019":
            from kaira.models.image.bourtsoulatze2019_deepjscc import Bourtsoulatze2019DeepJSCCDecoder, Bourtsoulatze2019DeepJSCCEncoder

            c = calculate_num_filters_factor_image(2, 1 / 6)
            enc, dec = Bourtsoulatze2019DeepJSCCEncoder(c), Bourtsoulatze2019DeepJSCCDecoder(c)
            model = DeepJSCCModel(enc, K.AveragePowerConstraint(1.0), C.AWGNChannel(snr_db=10.0), dec)
            return enc, dec, (lambda x: model(x)), (lambda x: enc(x)), {"ratio": 1 / 6, "range01": True, "stride": 4}
        if arch == "tung2022q":
            from kaira.models.image.tung2022_deepjscc_q import Tung2022DeepJSCCQDecoder, Tung2022DeepJSCCQEncoder

            enc, dec = Tung2022DeepJSCCQEncoder(N=16, M=8), Tung2022DeepJSCCQDecoder(N=16, M=8)
            model = DeepJSCCModel(enc, K.AveragePowerConstraint(1.0), C.AWGNChannel(snr_db=10.0), dec)
            return enc, dec, (lambda x: model(x)), (lambda x: enc(x)), {"ratio": 8 / (3 * 256), "range01": False, "stride": 16}
        if arch == "tung2022q2":
            from kaira.models.image.tung2022_deepjscc_q import Tung2022DeepJSCCQ2Decoder, Tung2022DeepJSCCQ2Encoder

            enc, dec = Tung2022DeepJSCCQ2Encoder(N=16, M=8), Tung2022DeepJSCCQ2Decoder(N=16, M=8)
            model = DeepJSCCModel(enc, K.AveragePowerConstraint(1.0), C.AWGNChannel(snr_db=10.0), dec)
            return enc, dec, (lambda x: model(x, csi=torch.full((x.shape[0], 1), 10.0))), (lambda x: enc(x, csi=torch.full((x.shape[0], 1), 10.0))), {"ratio": 8 / (3 * 16), "range01": False, "stride": 4, "spatial_ratio": 1 / 4}
        if arch == "kurka2020":
            from kaira.models.image.kurka2020_deepjscc_feedback import DeepJSCCFeedbackDecoder, DeepJSCCFeedbackEncoder

            enc, dec = DeepJSCCFeedbackEncoder(conv_depth=256), DeepJSCCFeedbackDecoder(n_channels=3)
            model = DeepJSCCModel(enc, K.AveragePowerConstraint(1.0), C.AWGNChannel(snr_db=10.0), dec)
            return enc, dec, (lambda x: model(x)), (lambda x: enc(x)), {"ratio": 256 / (3 * 16), "range01": True, "stride": 4}
        if arch == "yilmaz2023noma":
            from kaira.models.image.yilmaz2023_deepjscc_noma import Yilmaz2023DeepJSCCNOMAModel

            model = Yilmaz2023DeepJSCCNOMAModel(channel=C.AWGNChannel(snr_db=10.0), power_constraint=K.AveragePowerConstraint(1.0), num_devices=2, image_shape=(size, size), shared_encoder=False, use_device_embedding=True)
            encs = model.encoders

            def fwd(x):
                return model([x, x.flip(0)], csi=torch.full((x.shape[0], 1), 10.0))

            return encs, None, fwd, None, {"noma": True, "stride": 4}
        if arch == "yilmaz2024wz":
            from kaira.models.image.yilmaz2024_deepjscc_wz import Yilmaz2024DeepJSCCWZSmallDecoder, Yilmaz2024DeepJSCCWZSmallEncoder

            enc = Yilmaz2024DeepJSCCWZSmallEncoder(N=16, M=8)
            dec = Yilmaz2024DeepJSCCWZSmallDecoder(N=16, M=8, encoder=enc)
            con, ch = K.AveragePowerConstraint(1.0), C.AWGNChannel(snr_db=10.0)

            def fwd(x):
                csi = torch.full((x.shape[0], 1), 10.0)
                return dec(ch(con(enc(x, csi))), x.flip(0) * 0.9 + 0.05, csi)

            return enc, dec, fwd, (lambda x: enc(x, torch.full((x.shape[0], 1), 10.0))), {"ratio": 8 / (3 * 256), "range01": False, "stride": 16}
        raise ValueError(arch)

    # which parameters are on the path (reference on three seeds)
    on_path = None
    for bs in (1, 2, 5):
        if q and bs == 5 and (size > 32 or arch == "kurka2020"):
            continue
        verdict = {}
        for trial in range(3):
            enc, dec, fwd, encode, meta = build(seed_for("c19d", ctx.seed, arch, size, bs, trial))
            g = torch.Generator().manual_seed(seed_for("c19x", ctx.seed, arch, size, bs, trial))
            x = torch.rand(bs, 3, size, size, generator=g)
            if size % meta["stride"] != 0:
                try:
                    out = fwd(x)
                    if not meta.get("noma") and tuple(out.shape) != tuple(x.shape):
                        ctx.skip("image size not a multiple of the architecture's stride: documented as unsupported")
                    else:
                        ctx.ok("deepjscc:output shape = input shape")
                except Exception:  # noqa: BLE001
                    ctx.skip("image size rejected by the architecture")
                break
            try:
                with torch.autograd.set_detect_anomaly(True):
                    out = fwd(x)
                    target = x if not meta.get("noma") else torch.stack([x, x.flip(0)], dim=1)
                    if trial == 0:
                        ctx.case("deepjscc", arch, size, bs)
                        ctx.check(tuple(out.shape) == tuple(target.shape), "deepjscc:output shape = input shape", f"{arch}|image size multiple of stride|deepjscc:output shape = input shape|differs", input=list(target.shape), output=list(out.shape))
                        if meta.get("range01"):
                            ctx.check(bool((out >= 0).all()) and bool((out <= 1).all()), "deepjscc:output range", f"{arch}|-|deepjscc:output range|outside [0,1]", min=float(out.min()), max=float(out.max()))
                        if encode is not None:
                            z = encode(x)
                            ratio = z.numel() / x.numel()
                            ok = abs(ratio - meta["ratio"]) <= 1e-9
                            if "spatial_ratio" in meta:
                                ok = ok and abs(z.shape[-1] / x.shape[-1] - meta["spatial_ratio"]) < 1e-9 and abs(float(enc.bandwidth_ratio) - meta["spatial_ratio"]) < 1e-9
                            ctx.check(ok, "deepjscc:latent = bandwidth ratio", f"{arch}|-|deepjscc:latent = bandwidth ratio|differs", latent=list(z.shape), ratio=ratio, documented=meta["ratio"])
                    if tuple(out.shape) != tuple(target.shape):
                        break
                    loss = ((out - target) ** 2).mean()
                    loss.backward()
            except Exception as e:  # noqa: BLE001
                ctx.violation(f"{arch}|-|backward finite (anomaly mode)|raised:{type(e).__name__}", size=size, batch=bs, error=str(e)[:300])
                break
            mods = list(enc) if isinstance(enc, torch.nn.ModuleList) else [enc]
            for mi, m_ in enumerate(mods):
                for pn, p in m_.named_parameters():
                    key = f"{mi}.{pn}"
                    st = "none" if p.grad is None else ("nonfinite" if not bool(torch.isfinite(p.grad).all()) else ("zero" if float(p.grad.abs().max()) == 0.0 else "ok"))
                    verdict.setdefault(key, []).append(st)
        if verdict:
            bad_nonfinite = [k_ for k_, v in verdict.items() if "nonfinite" in v]
            never = [k_ for k_, v in verdict.items() if all(s_ in ("none", "zero") for s_ in v)]
            if never and size // meta["stride"] < 2:
                # a 1x1 latent leaves most 3x3 taps and whole ReLU branches without data: zero gradients there are
                # an artefact of the degenerate size, not of the pipeline
                ctx.skip("latent smaller than 2x2: per-parameter gradient clause not judged")
                never = []
            extra = 0
            while never and extra < 6:
                # dead-ReLU guard: a parameter only counts as 'never reached' if it stays at zero over further seeds
                extra += 1
                enc2, _, fwd2, _, meta2 = build(seed_for("c19d-extra", ctx.seed, arch, size, bs, extra))
                g2 = torch.Generator().manual_seed(seed_for("c19x-extra", ctx.seed, arch, size, bs, extra))
                x2 = torch.rand(bs, 3, size, size, generator=g2)
                out2 = fwd2(x2)
                tgt2 = x2 if not meta2.get("noma") else torch.stack([x2, x2.flip(0)], dim=1)
                ((out2 - tgt2) ** 2).mean().backward()
                mods2 = list(enc2) if isinstance(enc2, torch.nn.ModuleList) else [enc2]
                alive = set()
                for mi, m_ in enumerate(mods2):
                    for pn, p_ in m_.named_parameters():
                        if p_.grad is not None and float(p_.grad.abs().max()) > 0:
                            alive.add(f"{mi}.{pn}")
                never = [k_ for k_ in never if k_ not in alive]
            ctx.check(not bad_nonfinite, "backward finite (anomaly mode)", f"{arch}|-|backward finite (anomaly mode)|non-finite parameter gradient", parameters=bad_nonfinite[:5])
            ctx.check(not never, "deepjscc:every encoder parameter gets a finite non-zero gradient", f"{arch}|-|deepjscc:every encoder parameter gets a finite non-zero gradient|parameter never receives gradient", parameters=never[:8], size=size, batch=bs, total_parameters=len(verdict))
            ctx.note_add(f"encoder_parameters_checked[{arch}]", len(verdict))
    if size == 32:
        ctx.sample({"unit": u["unit"], "arch": arch, "image_size": size, "batch_sizes": [1, 2, 5]})
