"""C18 - binary polynomial and GF(2^m) arithmetic satisfy the ring and field laws."""
from __future__ import annotations

import random

from vk.oracles import gf2m

PROPERTY = "C18"
RULE = (
    "polynomials: all ordered pairs with degree<8 (exhaustive, 65536 pairs) + seeded random pairs up to degree 200; fields m=1..16: op-by-op comparison with an independent "
    "bit-mask reference (all pairs for small m, random elements above), law-level checks that do not trust the library's modulus (irreducibility, order of the designated "
    "primitive element from the factorisation of 2^m-1), all triples for m<=4/5 (associativity, distributivity), minimal polynomials against cyclotomic-coset products. "
    "Distinct = (unit, operands); non-trivial = both operands non-zero."
    " Added after the seeded-fault rounds: word-alias operands (v + j(2^61-1), v + 2^32, v + 2^63, v + 2^64, v(2^64+1), ...) after the small pair, and the small pair again."
    " Round 5: exponents at and around the multiples of the group order (2^m-2, 2^m-1, 2^m, 2(2^m-1), 2(2^m-1)+1, 3(2^m-1), 64(2^m-1)) for every element incl. 0."
)
ASSUMPTIONS = ["vk.oracles.gf2m is trusted after its self-test (known primitive polynomials, GF(16) table, BCH generators)", "field instances/elements are cached singletons: monitors never mutate them"]
REQUIRED = ["poly:a=q*b+r,deg r<deg b", "poly:gcd", "poly:lcm*gcd=a*b", "poly:mul", "field:mul", "field:add", "field:inverse", "field:pow", "field:primitive element order", "field:modulus irreducible", "field:trace", "field:conjugates", "field:minimal polynomial", "field:associative", "field:distributive"]
JOBS = {"quick": 8, "thorough": 16}
TIMEOUT = {"quick": 900, "thorough": 3600}
EXHAUSTIVE_NOTE = "polynomial pairs of degree<8; field pairs for m<=6 (quick) / m<=8 (thorough); field triples for m<=4 (quick) / m<=5 (thorough); minimal polynomials of every element for m<=6 / m<=8"


def units(tier, seed):
    q = tier == "quick"
    out = []
    for hi in range(0, 256, 32):
        out.append({"unit": f"poly-pairs-{hi}", "kind": "poly_exh", "lo": hi, "hi": hi + 32, "cost": 4})
    nrand = 10_000 if q else 400_000
    shards = 4 if q else 16
    for i in range(shards):
        out.append({"unit": f"poly-random-{i}", "kind": "poly_rand", "count": nrand // shards, "shard": i, "cost": 4 if q else 20})
    out.append({"unit": "poly-word-aliases", "kind": "poly_alias", "count": 150 if q else 1500, "cost": 6})
    for m in range(1, 17):
        out.append({"unit": f"field-laws-m{m}", "kind": "field_laws", "m": m, "cost": 1 + m / 4})
    for m in range(1, (7 if q else 9)):
        out.append({"unit": f"field-pairs-m{m}", "kind": "field_pairs", "m": m, "cost": 4 ** max(0, m - 4)})
    for m in range((7 if q else 9), 17):
        out.append({"unit": f"field-random-m{m}", "kind": "field_rand", "m": m, "count": 1000 if q else 50_000, "cost": 4 if q else 40})
    for m in range(1, (5 if q else 6)):
        out.append({"unit": f"field-triples-m{m}", "kind": "field_triples", "m": m, "cost": 8 ** max(0, m - 3)})
    for m in range(1, 13):
        exh = m <= (6 if q else 8)
        out.append({"unit": f"minpoly-m{m}", "kind": "minpoly", "m": m, "exhaustive": exh, "count": 60 if q else 200, "cost": 2 ** max(0, m - 5) if exh else 6})
    return out


def _poly_pair(ctx, BP, a, b, tag):
    A, B = BP(a), BP(b)
    ctx.case("poly", a, b, nontrivial=a != 0 and b != 0)
    prod = (A * B).value
    ctx.check(prod == gf2m.pmul(a, b), "poly:mul", f"BinaryPolynomial|{tag}|poly:mul|differs", a=a, b=b, got=prod, expected=gf2m.pmul(a, b))
    if b != 0:
        r = (A % B).value
        qv = A.div(B).value
        qr, rr = gf2m.pdivmod(a, b)
        ok = (gf2m.pmul(qv, b) ^ r) == a and gf2m.deg(r) < gf2m.deg(b) and r == rr and qv == qr
        ctx.check(ok, "poly:a=q*b+r,deg r<deg b", f"BinaryPolynomial|{tag}|poly:a=q*b+r,deg r<deg b|differs", a=a, b=b, q=qv, r=r, expected_q=qr, expected_r=rr)
    g = A.gcd(B).value
    gr = gf2m.pgcd(a, b)
    ok = g == gr
    if ok and g:
        ok = gf2m.pmod(a, g) == 0 and gf2m.pmod(b, g) == 0 and (a == 0 or b == 0 or gf2m.pgcd(gf2m.pdivmod(a, g)[0], gf2m.pdivmod(b, g)[0]) == 1)
        # gcd is a combination of the operands (Bezout), witnessed by the reference
        gg, s, t = gf2m.pegcd(a, b)
        ok = ok and (gf2m.pmul(s, a) ^ gf2m.pmul(t, b)) == g
    ctx.check(ok, "poly:gcd", f"BinaryPolynomial|{tag}|poly:gcd|differs", a=a, b=b, got=g, expected=gr)
    l = A.lcm(B).value
    ok = gf2m.pmul(l, g) == gf2m.pmul(a, b) if (a and b) else l == 0
    ctx.check(ok and l == gf2m.plcm(a, b), "poly:lcm*gcd=a*b", f"BinaryPolynomial|{tag}|poly:lcm*gcd=a*b|differs", a=a, b=b, lcm=l, gcd=g)


def run_unit(ctx, u):
    from kaira.models.fec.algebra import BinaryPolynomial as BP
    from kaira.models.fec.algebra import FiniteBifield

    kind = u["kind"]
    rng = random.Random(f"c18-{ctx.seed}-{u['unit']}")
    if kind == "poly_exh":
        for a in range(u["lo"], u["hi"]):
            for b in range(256):
                _poly_pair(ctx, BP, a, b, "deg<8")
        ctx.exhaustive_units += 1
        ctx.sample({"unit": u["unit"], "pairs": (u["hi"] - u["lo"]) * 256, "example": {"a": u["lo"] + 5, "b": 19}})
        return
    if kind == "poly_rand":
        for i in range(u["count"]):
            da, db = rng.randint(0, 200), rng.randint(0, 200)
            a, b = rng.getrandbits(da + 1), rng.getrandbits(db + 1)
            if i % 50 == 0:
                b = 0
            if i % 50 == 1:
                b = a
            if i % 50 == 2 and a:
                b = gf2m.pmul(a, rng.getrandbits(20) | 1)
            _poly_pair(ctx, BP, a, b, "deg<=200")
        ctx.sample({"unit": u["unit"], "pairs": u["count"], "example": {"a": a, "b": b}})
        return

    if kind == "poly_alias":
        # operands that coincide with an earlier operand under Python's int hash (mod 2^61-1) or under 32/64-bit
        # truncation: a result remembered or computed on a reduced key shows up as a wrong answer here
        P61 = (1 << 61) - 1
        for i in range(u["count"]):
            a, b = rng.getrandbits(rng.randint(1, 14)), rng.getrandbits(rng.randint(1, 14)) | 1
            _poly_pair(ctx, BP, a, b, "alias-base")
            al = lambda v: [v + P61 * j for j in (1, 2, 5)] + [v + (1 << 32), v + (1 << 63), v + (1 << 64), v + ((1 << 31) - 1), v | (1 << 127), (v << 64) | v, (v << 61) + v]  # noqa: E731
            As, Bs = al(a), al(b)
            for a2 in As:
                _poly_pair(ctx, BP, a2, b, "word-alias")
            for b2 in Bs:
                _poly_pair(ctx, BP, a, b2, "word-alias")
            for a2, b2 in zip(As, Bs):
                _poly_pair(ctx, BP, a2, b2, "word-alias")
            _poly_pair(ctx, BP, a, b, "alias-base")  # and the small pair again after its aliases
        ctx.sample({"unit": u["unit"], "base_pairs": u["count"], "aliases_per_operand": 10})
        return

    m = u["m"]
    F = FiniteBifield(m)
    mod = int(F.modulus.value)
    size = 1 << m
    tag = f"m={m}"
    el = F  # F(v) -> element

    def ref_ok():
        return gf2m.deg(mod) == m

    if kind == "field_laws":
        ctx.case("laws", m)
        ctx.check(gf2m.deg(mod) == m and gf2m.is_irreducible(mod), "field:modulus irreducible", f"FiniteBifield|{tag}|field:modulus irreducible|reducible", m=m, modulus=mod, factors_hint=[d for d in range(2, 1 << min(m, 9)) if gf2m.deg(d) >= 1 and gf2m.pmod(mod, d) == 0][:3])
        alpha = F.primitive_element()
        n = size - 1
        # order of alpha using only the library's own arithmetic
        o = None
        if alpha.value != 0 and (alpha**n).value == 1:
            o = n
            for p in gf2m.prime_factors(n):
                while o % p == 0 and (alpha ** (o // p)).value == 1:
                    o //= p
        ctx.check(o == n, "field:primitive element order", f"FiniteBifield|{tag}|field:primitive element order|order!=2^m-1", m=m, alpha=int(alpha.value), order=o, expected=n)
        ctx.check(F.zero.value == 0 and F.one.value == 1 and F.size == size, "field:constants", f"FiniteBifield|{tag}|field:constants|wrong", m=m)
        ctx.sample({"unit": u["unit"], "modulus": mod, "alpha": int(alpha.value), "order": o})
        return

    def pair(a, b):
        A, B = el(a), el(b)
        ctx.case("pair", m, a, b, nontrivial=a != 0 and b != 0)
        s = (A + B).value
        ctx.check(s == a ^ b and (B + A).value == s, "field:add", f"FiniteBifield|{tag}|field:add|differs", a=a, b=b, got=s)
        p = (A * B).value
        ctx.check(p == gf2m.mulmod(a, b, mod) and (B * A).value == p and 0 <= p < size, "field:mul", f"FiniteBifield|{tag}|field:mul|differs", a=a, b=b, got=p, expected=gf2m.mulmod(a, b, mod))

    def single(a, full):
        A = el(a)
        if a != 0:
            try:
                inv = A.inverse()
                ctx.check((A * inv).value == 1, "field:inverse", f"FiniteBifield|{tag}|field:inverse|a*inv(a)!=1", a=a, inv=int(inv.value))
            except Exception as e:  # noqa: BLE001
                ctx.violation(f"FiniteBifield|{tag}|field:inverse|raised:{type(e).__name__}", a=a, error=str(e)[:200])
        # powers against the repeated product (library ops) and the reference
        acc = el(1)
        okp = True
        for e in range(0, 9):
            if (A**e).value != acc.value:
                okp = False
                break
            acc = acc * A
        e = rng.randrange(0, 4 * size)
        okp = okp and (A**e).value == gf2m.powmod(a, e, mod)
        # exponents at and around the multiples of the group order 2^m-1 (where a reduced exponent wraps to 0)
        for e2 in (size - 2, size - 1, size, 2 * (size - 1), 2 * (size - 1) + 1, 3 * (size - 1), 64 * (size - 1)):
            if e2 >= 0 and okp and (A**e2).value != gf2m.powmod(a, e2, mod):
                okp, e = False, e2
        ctx.check(okp, "field:pow", f"FiniteBifield|{tag}|field:pow|differs", a=a, e=e)
        t = A.trace()
        ctx.check(t in (0, 1) and t == (gf2m.trace(a, mod) if gf2m.is_irreducible(mod) else t), "field:trace", f"FiniteBifield|{tag}|field:trace|not in GF(2) or differs", a=a, trace=t)
        b = rng.randrange(size)
        ctx.check((el(a) + el(b)).trace() == (A.trace() ^ el(b).trace()), "field:trace additive", f"FiniteBifield|{tag}|field:trace additive|fails", a=a, b=b)
        conj = sorted(int(c.value) for c in A.conjugates())
        ref = sorted(set(gf2m.powmod(a, 2**i, mod) for i in range(m))) if a else [0]
        ctx.check(conj == ref, "field:conjugates", f"FiniteBifield|{tag}|field:conjugates|differs", a=a, got=conj, expected=ref)

    if kind == "field_pairs":
        for a in range(size):
            for b in range(size):
                pair(a, b)
            single(a, True)
        ctx.exhaustive_units += 1
        ctx.sample({"unit": u["unit"], "pairs": size * size, "modulus": mod})
        return
    if kind == "field_rand":
        for i in range(u["count"]):
            a, b = rng.randrange(size), rng.randrange(size)
            if i % 97 == 0:
                a = 0
            pair(a, b)
            if i % 10 == 0:
                single(a, False)
        ctx.sample({"unit": u["unit"], "pairs": u["count"], "modulus": mod})
        return
    if kind == "field_triples":
        for a in range(size):
            A = el(a)
            for b in range(size):
                B = el(b)
                AB = A * B
                for c in range(size):
                    C = el(c)
                    ctx.case("triple", m, a, b, c, nontrivial=bool(a and b and c))
                    ctx.check((AB * C).value == (A * (B * C)).value and ((A + B) + C).value == (A + (B + C)).value, "field:associative", f"FiniteBifield|{tag}|field:associative|fails", a=a, b=b, c=c)
                    ctx.check((A * (B + C)).value == ((A * B) + (A * C)).value, "field:distributive", f"FiniteBifield|{tag}|field:distributive|fails", a=a, b=b, c=c)
        ctx.exhaustive_units += 1
        ctx.sample({"unit": u["unit"], "triples": size**3})
        return
    if kind == "minpoly":
        irreducible_mod = gf2m.is_irreducible(mod)
        elems = range(size) if u["exhaustive"] else [rng.randrange(1, size) for _ in range(u["count"])]
        for a in elems:
            if a == 0:
                continue
            A = el(a)
            ctx.case("minpoly", m, a)
            try:
                mp = int(A.minimal_polynomial().value)
            except Exception as e:  # noqa: BLE001
                ctx.violation(f"FiniteBifield|{tag}|field:minimal polynomial|raised:{type(e).__name__}", a=a, error=str(e)[:200])
                continue
            vanish = gf2m.poly_eval(mp, a, mod) == 0
            irr = gf2m.is_irreducible(mp)
            same = (mp == gf2m.minimal_polynomial(a, mod)) if irreducible_mod else True
            sym = "ok"
            if not vanish:
                sym = "does not vanish"
            elif not irr:
                sym = "reducible"
            elif not same:
                sym = "differs from coset product"
            ctx.check(vanish and irr and same, "field:minimal polynomial", f"FiniteBifield|{tag}|field:minimal polynomial|{sym}", a=a, minpoly=mp, modulus=mod)
        if u["exhaustive"]:
            ctx.exhaustive_units += 1
        ctx.sample({"unit": u["unit"], "elements": len(list(elems)), "exhaustive": u["exhaustive"]})
        return
    raise ValueError(kind)
