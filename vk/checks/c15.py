"""C15 - one LLR polarity everywhere: positive means bit 0, negative means bit 1."""
from __future__ import annotations

import contextlib
import io
import itertools
import math
import random

from vk.workloads import modems

PROPERTY = "C15"
RULE = (
    "producers x consumers: every soft demodulator (noise-free symbols, noise_var in {1e-3,1,1e3}, rescaled so |LLR| sweeps 1e-3..1e3) and a reference producer (1-2b)*A, fed into every "
    "LLR consumer: Fixed/Adaptive/LLR/MinDistance/Hysteresis/Weighted/Dynamic/Ensemble thresholders in LLR mode, RepetitionSoftBitDecoder, llr_to_bits, sign_to_bin(sign), and "
    "the soft-input decoders (BP, min-sum, Wagner, SC, polar-BP, soft Reed-Muller) decoding a clean codeword; bit sequences exhaustive for length<=8 and seeded random. "
    "Distinct = (producer, consumer, bit sequence, magnitude); non-trivial = sequence contains both symbols."
    " Added after the seeded-fault rounds: ensemble voting modes with explicit weights, consumers constructed with the enum member and with the documented string 'llr', variants of one scheme/order in one child process."
    " Round 5: modem form axis (deep copy, .double().float(), state_dict twin)."
)
ASSUMPTIONS = [
    "Hysteresis is judged only where sigmoid(-LLR) lies outside its [low, high] band; Adaptive/Dynamic only on sequences containing both symbols; Dynamic is a fresh object per case",
    "each consumer is also driven by the reference producer alone, so a defective producer cannot mask a defective consumer",
    "decoders are driven through the reference producer and the memoryless demodulators (codeword length padded to a multiple of bits-per-symbol by whole blocks)",
]
REQUIRED = ["consumer polarity", "producer polarity", "P(bit=1)=sigmoid(-LLR)", "decoder polarity"]
JOBS = {"quick": 6, "thorough": 16}
TIMEOUT = {"quick": 900, "thorough": 3600}
MAGS = [1e-3, 0.05, 0.5, 1.0, 4.0, 50.0, 1e3]


# ------------------------------------------------------------------ consumers (thresholder-like: LLR tensor (B,L) -> bits)
def thresholder_consumers():
    import torch

    from kaira.models.binary import soft_bit_thresholding as T
    from kaira.models.fec import utils as FU

    cons = {}
    # the input type is given as the enum member and as the documented string form ('llr')
    for LLR, sfx in ((T.InputType.LLR, ""), ("llr", ",str")):
        cons.update(_thresholders(T, FU, torch, LLR, sfx))
    return cons


def _thresholders(T, FU, torch, LLR, sfx):
    cons = {
        "FixedThresholder(llr)" + sfx: lambda: T.FixedThresholder(threshold=0.0, input_type=LLR),
        "AdaptiveThresholder(llr,mean)" + sfx: lambda: T.AdaptiveThresholder(method="mean", input_type=LLR),
        "LLRThresholder": lambda: T.LLRThresholder(),
        "LLRThresholder(scaling=3)": lambda: T.LLRThresholder(confidence_scaling=3.0),
        "MinDistanceThresholder(llr)" + sfx: lambda: T.MinDistanceThresholder(input_type=LLR),
        "HysteresisThresholder(llr)" + sfx: lambda: T.HysteresisThresholder(input_type=LLR),
        "WeightedThresholder(llr)" + sfx: lambda: T.WeightedThresholder(weights=1.0, threshold=0.5, input_type=LLR),
        "DynamicThresholder(llr)" + sfx: lambda: T.DynamicThresholder(input_type=LLR),
        "Ensemble(LLR,Hysteresis,Weighted)" + sfx: lambda: T.SoftBitEnsembleThresholder([T.LLRThresholder(), T.WeightedThresholder(weights=1.0, input_type=LLR), T.LLRThresholder(confidence_scaling=2.0)], voting="majority"),
        "Ensemble(weighted,explicit weights,3 members)" + sfx: lambda: T.SoftBitEnsembleThresholder([T.LLRThresholder(), T.WeightedThresholder(weights=1.0, input_type=LLR), T.LLRThresholder(confidence_scaling=2.0)], voting="weighted", weights=[0.5, 0.3, 0.2]),
        "Ensemble(weighted,default weights)": lambda: T.SoftBitEnsembleThresholder([T.LLRThresholder(), T.LLRThresholder(confidence_scaling=2.0)], voting="weighted"),
        "Ensemble(weighted,explicit weights,4 members)" + sfx: lambda: T.SoftBitEnsembleThresholder([T.LLRThresholder(), T.LLRThresholder(confidence_scaling=0.5), T.WeightedThresholder(weights=1.0, input_type=LLR), T.LLRThresholder(confidence_scaling=2.0)], voting="weighted", weights=torch.tensor([1.0, 2.0, 3.0, 4.0])),
        "Ensemble(any)" + sfx: lambda: T.SoftBitEnsembleThresholder([T.LLRThresholder(), T.LLRThresholder(confidence_scaling=2.0), T.WeightedThresholder(weights=1.0, input_type=LLR)], voting="any"),
        "Ensemble(all)" + sfx: lambda: T.SoftBitEnsembleThresholder([T.LLRThresholder(), T.LLRThresholder(confidence_scaling=2.0), T.WeightedThresholder(weights=1.0, input_type=LLR)], voting="all"),
        "llr_to_bits": lambda: FU.llr_to_bits,
        "sign_to_bin(sign)": lambda: (lambda x: FU.sign_to_bin(__import__("torch").sign(x))),
    }
    if sfx:
        cons = {k: v for k, v in cons.items() if k.endswith(sfx)}
    return cons


def units(tier, seed):
    out = [{"unit": "consumers:reference-producer", "kind": "ref", "cost": 3}, {"unit": "probability-map", "kind": "prob", "cost": 1}, {"unit": "repetition-soft", "kind": "rep", "cost": 1}]
    for s in modems.catalogue(tier):
        if s["scheme"] == "identity" or s.get("via") == "registry":
            continue
        if tier == "quick" and s.get("order", 4) > 16:
            continue
        out.append({"unit": f"producer:{modems.cfg(s)}", "kind": "producer", "spec": s, "cost": 1 + s.get("order", 4) / 16, "group": f"{s['scheme']}:{s.get('order', 0)}"})
    for name in ("bp", "bp_taylor", "minsum", "minsum_normalized", "wagner", "sc", "sc_minsum", "polar_bp", "rm_soft"):
        out.append({"unit": f"decoder:{name}", "kind": "decoder", "decoder": name, "cost": 3})
    return out


def _judge_thresholders(ctx, tag, producer, llr, bits, mask, mag):
    """llr, bits, mask: (B,L) tensors. Every consumer must map llr to bits where mask."""
    import torch

    for cname, make in thresholder_consumers().items():
        judged = mask.clone()
        both = bool((bits[mask] == 0).any()) and bool((bits[mask] == 1).any())
        if cname.startswith(("Adaptive", "Dynamic")) and not both:
            ctx.skip("adaptive threshold undefined on a one-symbol sequence")
            continue
        if cname.startswith("Hysteresis"):
            p1 = torch.sigmoid(-llr)
            judged = judged & ((p1 > 0.6) | (p1 < 0.4))
        if cname.startswith(("Weighted", "Dynamic", "Adaptive", "MinDistance")):
            # float32 sigmoid saturates/rounds to exactly 0.5 below |LLR| ~ 1e-7; the sweep stays above
            pass
        if not bool(judged.any()):
            ctx.skip("no judged position (hysteresis band)")
            continue
        cons = make()
        try:
            out = cons(llr)
        except Exception as e:  # noqa: BLE001
            ctx.violation(f"{cname}|{tag}|consumer polarity|raised:{type(e).__name__}", producer=producer, error=str(e)[:200])
            continue
        ok = tuple(out.shape) == tuple(bits.shape) and bool(((out.double().round() == bits.double()) | ~judged).all())
        if not ok and cname.startswith(("Adaptive", "Dynamic")) and tuple(out.shape) == tuple(bits.shape):
            # data-driven threshold: its *position* is not part of the property, its polarity is.
            # Polarity oracle: decisions are a non-increasing function of the LLR and the extreme
            # LLRs of the sequence are decided 0 (largest) and 1 (smallest).
            o = out.double().round()[judged]
            l = llr.double()[judged]
            ones, zeros = l[o == 1], l[o == 0]
            mono = ones.numel() == 0 or zeros.numel() == 0 or bool(ones.max() <= zeros.min())
            ext = bool(o[l.argmax()] == 0) and bool(o[l.argmin()] == 1)
            ok = mono and ext
        if ok:
            ctx.ok("consumer polarity", int(judged.sum()))
        else:
            inv = tuple(out.shape) == tuple(bits.shape) and bool(((out.double().round() == 1 - bits.double()) | ~judged).all())
            ctx.violation(f"{cname}|{tag}|consumer polarity|{'inverted' if inv else 'wrong bits'}", producer=producer, magnitude=mag, llr=llr.flatten()[:8], expected=bits.flatten()[:8], got=out.flatten()[:8])


def run_unit(ctx, u):
    import torch

    kind = u["kind"]
    rng = random.Random(f"c15-{ctx.seed}-{u['unit']}")
    q = ctx.tier == "quick"

    if kind == "ref":
        seqs = [list(t) for L in range(1, 9) for t in itertools.product([0, 1], repeat=L)] if not q else [list(t) for L in (1, 2, 3, 5, 8) for t in itertools.product([0, 1], repeat=L)]
        seqs += [[rng.getrandbits(1) for _ in range(rng.randint(9, 200))] for _ in range(40 if q else 2000)]
        for seq in seqs:
            bits = torch.tensor([seq], dtype=torch.float32)
            mask = torch.ones_like(bits, dtype=torch.bool)
            for A in MAGS:
                ctx.case("ref", tuple(seq) if len(seq) <= 16 else hash(tuple(seq)), A, nontrivial=0 < sum(seq) < len(seq))
                _judge_thresholders(ctx, "reference producer", "(1-2b)*A", (1 - 2 * bits) * A, bits, mask, A)
        ctx.exhaustive_units += 1
        ctx.sample({"unit": u["unit"], "sequences": len(seqs), "magnitudes": MAGS, "consumers": list(thresholder_consumers())})
        return

    if kind == "prob":
        from kaira.models.binary import soft_bit_thresholding as T

        x = torch.tensor([[-1e3, -50.0, -4.0, -1.0, -0.5, -1e-3, 0.0, 1e-3, 0.5, 1.0, 4.0, 50.0, 1e3] + [rng.uniform(-30, 30) for _ in range(200)]])
        p = T.LLRThresholder(output_type=T.OutputType.SOFT)(x)
        ref = 1.0 / (1.0 + torch.exp(x.double()))
        ctx.case("prob", 0)
        ctx.case("prob", 1)
        ctx.check(bool(torch.allclose(p.double(), ref, atol=1e-6)), "P(bit=1)=sigmoid(-LLR)", "LLRThresholder(soft)|-|P(bit=1)=sigmoid(-LLR)|differs", llr=x.flatten()[:8], got=p.flatten()[:8])
        xs, idx = torch.sort(x.flatten())
        ps = p.flatten()[idx]
        ctx.check(bool((ps[1:] <= ps[:-1] + 1e-7).all()), "P(bit=1) monotone decreasing in LLR", "LLRThresholder(soft)|-|P(bit=1) monotone decreasing in LLR|not monotone")
        ctx.sample({"unit": u["unit"], "points": int(x.numel())})
        return

    if kind == "rep":
        from kaira.models.binary import soft_bit_thresholding as T

        for rep in (1, 3, 5):
            for method in ("mean", "sum", "median", "max", "min"):
                for _ in range(5 if q else 50):
                    B, L = rng.randint(1, 3), rng.randint(1, 12)
                    bits = torch.tensor([[rng.getrandbits(1) for _ in range(L)] for _ in range(B)], dtype=torch.float32)
                    for A in MAGS:
                        llr = ((1 - 2 * bits) * A).repeat_interleave(rep, dim=1)
                        dec = T.RepetitionSoftBitDecoder(repetition_factor=rep, soft_combine_method=method, input_type=T.InputType.LLR)
                        ctx.case("rep", rep, method, tuple(bits.flatten().tolist()), A, nontrivial=bool(bits.any()))
                        try:
                            out = dec(llr)
                            ok = tuple(out.shape) == tuple(bits.shape) and bool((out == bits).all())
                            ctx.check(ok, "consumer polarity", f"RepetitionSoftBitDecoder(llr)|reference producer|consumer polarity|wrong bits", method=method, rep=rep, bits=bits.flatten()[:8], got=out.flatten()[:8])
                        except Exception as e:  # noqa: BLE001
                            ctx.violation(f"RepetitionSoftBitDecoder(llr)|reference producer|consumer polarity|raised:{type(e).__name__}", error=str(e)[:200])
        ctx.sample({"unit": u["unit"], "methods": ["mean", "sum", "median", "max", "min"], "factors": [1, 3, 5]})
        return

    if kind == "producer":
        from vk.checks.c05 import expected_bits

        s = u["spec"]
        kc = modems.cfg_class(s)
        b = modems.bits_per_symbol(s)
        mod, dem = modems.build(s)
        min_syms = 2 if s["scheme"] in ("dpsk", "dbpsk", "dqpsk") else 1
        groups = modems.all_groups(b)
        rows = []
        # exhaustive short sequences: all pairs of groups (memory) / all groups; plus random
        if s["scheme"] in modems.MEMORY:
            tuples = list(itertools.product(groups, repeat=2))
            if len(tuples) > 64:
                tuples = rng.sample(tuples, 64)
            rows += [[bit for g in t for bit in g] for t in tuples]
        else:
            rows += [list(g) + list(g2) for g in groups[:16] for g2 in groups[-2:]]
        nsym = max(4, -(-8 // b))
        rows += [[rng.getrandbits(1) for _ in range(nsym * 2 * b)][: len(rows[0])] for _ in range(10 if q else 200)]
        L = len(rows[0])
        rows = [r for r in rows if len(r) == L]
        x = torch.tensor(rows, dtype=torch.float32)
        exp, mask = expected_bits(s, rows)
        e_t = torch.tensor(exp, dtype=torch.float32)
        m_t = torch.tensor(mask, dtype=torch.bool)
        for nv in (1e-3, 1.0, 1e3):
            modems.fresh(mod, dem)
            try:
                y = mod(x)
                llr = dem(y, nv)
            except Exception as e:  # noqa: BLE001
                ctx.violation(f"{kc}|soft demodulator|producer polarity|raised:{type(e).__name__}", spec=s, error=str(e)[:200])
                continue
            if tuple(llr.shape) != tuple(e_t.shape):
                ctx.violation(f"{kc}|soft demodulator|producer polarity|wrong output shape", spec=s, got=list(llr.shape), expected=list(e_t.shape))
                continue
            # producer polarity against the reference reading: LLR>0 <-> bit 0
            ok = bool((((llr > 0) == (e_t == 0)) | ~m_t).all()) and bool(((llr != 0) | ~m_t).all())
            for r_ in rows[:20]:
                ctx.case("producer", modems.cfg(s), tuple(r_), nv, nontrivial=0 < sum(r_) < len(r_))
            if ok:
                ctx.ok("producer polarity", int(m_t.sum()))
            else:
                inv = bool((((llr < 0) == (e_t == 0)) | ~m_t).all())
                ctx.violation(f"{kc}|soft demodulator|producer polarity|{'inverted' if inv else 'wrong sign pattern'}", spec=s, noise_var=nv, bits=rows[0][:16], llr=llr[0][:16])
            # rescale so that |LLR| sweeps the magnitudes and feed every consumer
            scale = llr.abs()[m_t].median().clamp_min(1e-30)
            for A in (MAGS if nv == 1.0 else [1.0]):
                _judge_thresholders(ctx, "soft demodulator output", modems.cfg(s), llr / scale * A, e_t, m_t, A)
        if s["id"] % 10 == 0:
            ctx.sample({"unit": u["unit"], "sequences": len(rows), "noise_vars": [1e-3, 1.0, 1e3]})
        return

    if kind == "decoder":
        from vk.workloads import softdec

        name = u["decoder"]
        setups = softdec.setups(name, ctx.tier, rng)
        for st in setups:
            enc, dec, k, n, label = st["encoder"], st["decoder"], st["k"], st["n"], st["label"]
            msgs = torch.tensor([[rng.getrandbits(1) for _ in range(k)] for _ in range(6 if q else 40)] + [[0] * k, [1] * k], dtype=torch.float32)
            with contextlib.redirect_stdout(io.StringIO()):
                cw = enc(msgs)
            # reference producer
            for A in (0.5, 1.0, 4.0, 50.0):
                llr = (1 - 2 * cw) * A
                ctx.case("decoder", name, label, A, nontrivial=True)
                _run_decoder(ctx, name, label, "reference producer", dec, llr, msgs)
            # memoryless soft demodulators as producers
            for s in ({"scheme": "bpsk"}, {"scheme": "qpsk", "normalize": True}, {"scheme": "qam", "order": 16, "gray": True, "normalize": True}, {"scheme": "psk", "order": 8, "gray": True}, {"scheme": "pam", "order": 4, "gray": True, "normalize": True}):
                s = dict(s, via="direct", id=0)
                b = modems.bits_per_symbol(s)
                blocks = b // math.gcd(n, b)
                if msgs.shape[0] % blocks:
                    continue
                mod, dem = modems.build(s)
                stream = cw.reshape(-1, blocks * n)
                try:
                    llr = dem(mod(stream), 1.0).reshape(-1, n)
                except Exception as e:  # noqa: BLE001
                    ctx.skip(f"producer {s['scheme']} failed: {type(e).__name__}")
                    continue
                ctx.case("decoder", name, label, modems.cfg(s), nontrivial=True)
                _run_decoder(ctx, name, label, "soft demodulator output", dec, llr, msgs)
        ctx.sample({"unit": u["unit"], "setups": [st["label"] for st in setups]})
        return
    raise ValueError(kind)


def _run_decoder(ctx, name, label, producer, dec, llr, msgs):
    import torch

    try:
        with contextlib.redirect_stdout(io.StringIO()):
            out = dec(llr)
    except Exception as e:  # noqa: BLE001
        ctx.violation(f"decoder:{name}|{producer}|decoder polarity|raised:{type(e).__name__}", setup=label, error=str(e)[:300])
        return
    if isinstance(out, tuple):
        out = out[0]
    if tuple(out.shape) != tuple(msgs.shape):
        ctx.violation(f"decoder:{name}|{producer}|decoder polarity|wrong output shape", setup=label, got=list(out.shape), expected=list(msgs.shape))
        return
    same = bool((out.double().round() == msgs.double()).all())
    if same:
        ctx.ok("decoder polarity", msgs.shape[0])
    else:
        inv = bool((out.double().round() == 1 - msgs.double()).all())
        ctx.violation(f"decoder:{name}|{producer}|decoder polarity|{'inverted' if inv else 'wrong message'}", setup=label, llr=llr[0][:16], expected=msgs[0], got=out[0])
