"""C11 - polar encoding is the Arikan transform on the 5G information set and inverts."""
from __future__ import annotations

import contextlib
import io
import os
import random

import numpy as np

PROPERTY = "C11"
RULE = (
    "N in {2..1024} x k (all k for small N, sampled above) x frozen zeros/ones x interleaving on/off x sum-product/min-sum x user-supplied masks; all 2^k messages for k<=10 (seeded "
    "above), LLR magnitudes {0.5,1,4,100}, batch sizes 1..8. Oracles: own reader of rank_polar.csv (cross-checked with the first 16 entries of the 5G sequence), explicit Kronecker "
    "power, u recovered from the codeword by the involution x.F^(xn), float64 textbook successive cancellation (recursive; cross-checked by brute-force marginalisation for N<=8) "
    "compared wherever every decision LLR exceeds 1e-3 in magnitude. Distinct = (configuration, message / LLR vector); non-trivial = non-zero message / random LLR vector."
    " Added after the seeded-fault rounds: deep trees at very high/low rate (N=512,1024), codes of one block length built in one process in a mixed order of k, the encoder's dtype option (float64/int64/int32)."
    " Round 5: one polar-BP decoder object fed other codewords at the same batch size (rows reversed, next rows, first rows again) at |LLR| = 100, 25, 1."
)
ASSUMPTIONS = [
    "polar-BP is judged on the clean-decode clause only (iterative, not ML) and rejects interleaving by design (recorded as rejected)",
    "arbitrary-LLR comparisons skip vectors with a decision LLR below 1e-3 in the float64 reference (ties)",
    "sum_product check nodes saturate in float32 above ~17: arbitrary-LLR vectors whose float64 reference sees a check-node input above 12 are skipped for the sum-product regime (counted)",
]
REQUIRED = ["info set = k most reliable (5G)", "frozen positions carry the configured value", "encode = u.F^(xn)", "generator matrix = F^(xn)", "SC clean decode", "polar-BP clean decode", "SC = textbook SC", "first call = later calls"]
JOBS = {"quick": 6, "thorough": 16}
TIMEOUT = {"quick": 900, "thorough": 3600}
FIRST16 = [0, 1, 2, 4, 8, 16, 32, 3, 5, 64, 9, 6, 17, 10, 18, 128]


def read_rank():
    import kaira.models.fec as fecpkg

    path = os.path.join(os.path.dirname(fecpkg.__file__), "rank_polar.csv")
    q = []
    with open(path) as f:
        next(f)
        for line in f:
            parts = line.split()
            if len(parts) == 2:
                q.append(int(parts[1]))
    assert q[:16] == FIRST16 and sorted(q) == list(range(1024)), "reliability sequence reader self-test"
    return q


def kron_power(m):
    F = np.array([[1, 0], [1, 1]], dtype=np.int64)
    G = np.array([[1]], dtype=np.int64)
    for _ in range(m):
        G = np.kron(G, F)
    return G


def bitrev_perm(m):
    N = 1 << m
    return np.array([int(format(i, f"0{m}b")[::-1], 2) if m else 0 for i in range(N)])


def units(tier, seed):
    q = tier == "quick"
    out = []
    rng = random.Random(f"c11-units-{tier}-{seed}")
    cfgs = []
    for m in range(1, 6):
        N = 1 << m
        ks = list(range(1, N)) if (N <= 16 or not q) else sorted(rng.sample(range(1, N), 6))
        if N == 2:
            ks = [1]
        for k in ks:
            cfgs.append((N, k))
    for N in (64, 128) if q else (64, 128, 256, 512, 1024):
        for k in sorted(rng.sample(range(1, N), 3 if q else 8)):
            cfgs.append((N, k))
    # deep trees at very high and very low rate: the regime where repeated check-node products underflow
    cfgs += [(512, 454), (1024, 1000)] if q else [(256, 250), (512, 454), (512, 500), (1024, 1000), (1024, 1023), (1024, 900), (1024, 1), (1024, 12)]
    cfgs = list(dict.fromkeys(cfgs))
    # codes of one block length are built one after the other in one process, in a seeded mixed order of k
    # (ascending and descending neighbours): state shared per block length becomes observable
    rng.shuffle(cfgs)
    for N, k in cfgs:
        out.append({"unit": f"polar:N={N},k={k}", "kind": "code", "N": N, "k": k, "cost": 1 + N / 32, "group": f"polar:N={N}"})
    for i in range(4 if q else 16):
        out.append({"unit": f"sc-random-llr#{i}", "kind": "sc_llr", "shard": i, "cost": 6})
    out.append({"unit": "user-masks", "kind": "masks", "cost": 3})
    out.append({"unit": "sc-reference-selftest", "kind": "selftest", "cost": 1})
    return out


# ---------------------------------------------------------------- textbook SC (float64)
PEAK = [0.0]  # largest |LLR| seen at a check-node input of the reference (float32 tanh saturates near 17)


def f_sp(a, b):
    PEAK[0] = max(PEAK[0], float(np.abs(a).max()), float(np.abs(b).max()))
    return 2 * np.arctanh(np.clip(np.tanh(a / 2) * np.tanh(b / 2), -1 + 1e-16, 1 - 1e-16))


def f_ms(a, b):
    return np.sign(a) * np.sign(b) * np.minimum(np.abs(a), np.abs(b))


def sc_ref(y, info, frozen_val, f):
    """natural-order code x = u.F^(xn).  Returns (u_hat, x_hat, min |decision LLR| over info bits)."""
    N = len(y)
    if N == 1:
        if info[0]:
            u = 1 if y[0] < 0 else 0
            return [u], [u], abs(y[0])
        return [frozen_val], [frozen_val], np.inf
    h = N // 2
    a, b = y[:h], y[h:]
    u1, x1, m1 = sc_ref(f(a, b), info[:h], frozen_val, f)
    x1a = np.array(x1)
    u2, x2, m2 = sc_ref(b + (1 - 2 * x1a) * a, info[h:], frozen_val, f)
    x = list((x1a + np.array(x2)) % 2) + list(x2)
    return u1 + u2, x, min(m1, m2)


def sc_brute(y, info, frozen_val, G):
    """SC with exact bit-channel LLRs by marginalising over all future bits (N<=8)."""
    N = len(y)
    u_hat = []
    margin = np.inf
    for i in range(N):
        lw = {0: [], 1: []}
        for tail in range(1 << (N - i - 1)):
            for ui in (0, 1):
                u = u_hat + [ui] + [(tail >> t) & 1 for t in range(N - i - 1)]
                x = (np.array(u) @ G) % 2
                lw[ui].append(-(x * y).sum())
        L = np.logaddexp.reduce(lw[0]) - np.logaddexp.reduce(lw[1])
        if info[i]:
            u_hat.append(1 if L < 0 else 0)
            margin = min(margin, abs(L))
        else:
            u_hat.append(frozen_val)
    return u_hat, margin


def quiet(fn, *a, **kw):
    with contextlib.redirect_stdout(io.StringIO()):
        return fn(*a, **kw)


def run_unit(ctx, u):
    import torch

    from kaira.models.fec import decoders as D
    from kaira.models.fec import encoders as E

    kind = u["kind"]
    rng = random.Random(f"c11-{ctx.seed}-{u['unit']}")
    q = ctx.tier == "quick"

    if kind == "selftest":
        # the recursive float64 reference agrees with brute-force marginalisation (sum-product) on small N
        for m in (1, 2, 3):
            N = 1 << m
            G = kron_power(m)
            for _ in range(30):
                info = [rng.random() < 0.5 for _ in range(N)]
                y = np.array([rng.gauss(0, 2) for _ in range(N)])
                fz = rng.getrandbits(1)
                ur, _, mr = sc_ref(y, info, fz, f_sp)
                ub, mb = sc_brute(y, info, fz, G)
                ctx.case("selftest", N, tuple(np.round(y, 5)))
                if min(mr, mb) > 1e-3:
                    ctx.check(ur == ub, "reference self-test", "reference|textbook SC|reference self-test|recursive != brute force", y=y.tolist(), info=info)
        return

    rank = read_rank()

    def make(N, k, fz, pi, **kw):
        return quiet(E.PolarCodeEncoder, k, N, frozen_zeros=fz, polar_i=pi, **kw)

    if kind == "code":
        N, k = u["N"], u["k"]
        m = N.bit_length() - 1
        G = kron_power(m)
        br = bitrev_perm(m)
        sub = [r for r in rank if r < N]
        exp_frozen = set(sub[: N - k])
        exp_info = np.array([i not in exp_frozen for i in range(N)])
        for fz in (True, False):
            for pi in (False, True):
                cfgk = f"frozen_{'zeros' if fz else 'ones'},{'interleaved' if pi else 'plain'}"
                enc = make(N, k, fz, pi)
                info = enc.info_indices.numpy().astype(bool)
                ctx.case("code", N, k, fz, pi)
                ctx.check(bool((info == exp_info).all()) and int(info.sum()) == k, "info set = k most reliable (5G)", f"PolarCodeEncoder|{cfgk}|info set = k most reliable (5G)|differs", N=N, k=k, got=np.nonzero(info)[0].tolist()[:20], expected=np.nonzero(exp_info)[0].tolist()[:20])
                gm = enc.get_generator_matrix().numpy().astype(np.int64)
                ctx.check(gm.shape == (N, N) and bool((gm == G).all()), "generator matrix = F^(xn)", f"PolarCodeEncoder|{cfgk}|generator matrix = F^(xn)|differs", N=N)
                if k <= (8 if q else 10):
                    msgs = np.array([[(i >> j) & 1 for j in range(k)] for i in range(1 << k)], dtype=np.float32)
                    ctx.exhaustive_units += 1
                else:
                    msgs = np.array([[rng.getrandbits(1) for _ in range(k)] for _ in range(64 if q else 256)], dtype=np.float32)
                    msgs[0] = 0
                    msgs[1] = 1
                mt = torch.tensor(msgs)
                first = enc(mt[:1]).numpy().copy()
                x = enc(mt).numpy()
                again = enc(mt[:1]).numpy()
                ctx.check(bool((first == x[:1]).all()) and bool((again == first).all()), "first call = later calls", f"PolarCodeEncoder|{cfgk}|first call = later calls|differs", N=N, k=k)
                if x.shape != (len(msgs), N) or not bool(((x == 0) | (x == 1)).all()):
                    ctx.violation(f"PolarCodeEncoder|{cfgk}|encode = u.F^(xn)|wrong shape or non-binary", N=N, k=k, shape=list(x.shape))
                    continue
                xi = x.astype(np.int64)
                xn = xi[:, br] if pi else xi  # undo the bit-reversal interleaver
                uvec = (xn @ G) % 2  # F^(xn) is an involution over GF(2)
                fv = 0 if fz else 1
                ok_frozen = bool((uvec[:, ~info] == fv).all())
                ok_info = bool((uvec[:, info] == msgs.astype(np.int64)).all())
                ctx.check(ok_frozen, "frozen positions carry the configured value", f"PolarCodeEncoder|{cfgk}|frozen positions carry the configured value|differs", N=N, k=k, u=uvec[min(1, len(uvec) - 1)].tolist()[:32])
                ctx.check(ok_info, "encode = u.F^(xn)", f"PolarCodeEncoder|{cfgk}|encode = u.F^(xn)|message bits not on the information positions / wrong transform", N=N, k=k)
                # explicit forward product as well
                U = np.full((len(msgs), N), fv, dtype=np.int64)
                U[:, info] = msgs.astype(np.int64)
                ref = (U @ G) % 2
                if pi:
                    ref = ref[:, br]
                ctx.check(bool((ref == xi).all()), "encode = u.F^(xn)", f"PolarCodeEncoder|{cfgk}|encode = u.F^(xn)|differs from the Kronecker-power product", N=N, k=k)
                # ------------ decoders, clean LLRs, batch sizes 1..8
                sel = mt[: min(len(mt), 24)]
                cw = torch.tensor(x[: len(sel)])
                for regime in ("sum_product", "min_sum"):
                    sc = D.SuccessiveCancellationDecoder(enc, regime=regime)
                    for A in (0.5, 1.0, 4.0, 100.0):
                        for bsz in (1, 3, 8):
                            llr = (1 - 2 * cw[:bsz]) * A
                            try:
                                out = sc(llr)
                                ok = tuple(out.shape) == (llr.shape[0], k) and bool((out == sel[: llr.shape[0]]).all())
                                ctx.check(ok, "SC clean decode", f"SuccessiveCancellationDecoder|{cfgk},{regime}|SC clean decode|wrong message", N=N, k=k, A=A, batch=bsz)
                            except Exception as e:  # noqa: BLE001
                                ctx.violation(f"SuccessiveCancellationDecoder|{cfgk},{regime}|SC clean decode|raised:{type(e).__name__}", N=N, k=k, error=str(e)[:200])
                    if pi:
                        try:
                            quiet(D.BeliefPropagationPolarDecoder, enc, regime=regime)
                            ctx.violation(f"BeliefPropagationPolarDecoder|{cfgk}|polar-BP clean decode|accepted an interleaved code it documents as unsupported")
                        except ValueError:
                            ctx.skip("polar-BP rejects interleaving by design")
                        continue
                    for iters in (10, 50):
                        bp = quiet(D.BeliefPropagationPolarDecoder, enc, bp_iters=iters, regime=regime)
                        for A in (0.5, 1.0, 4.0, 100.0):
                            llr = (1 - 2 * cw[:8]) * A
                            try:
                                out = bp(llr)
                                ok = tuple(out.shape) == (llr.shape[0], k) and bool((out == sel[: llr.shape[0]]).all())
                                ctx.check(ok, "polar-BP clean decode", f"BeliefPropagationPolarDecoder|{cfgk},{regime}|polar-BP clean decode|wrong message", N=N, k=k, A=A, iters=iters)
                            except Exception as e:  # noqa: BLE001
                                ctx.violation(f"BeliefPropagationPolarDecoder|{cfgk},{regime}|polar-BP clean decode|raised:{type(e).__name__}", N=N, k=k, error=str(e)[:200])
                        # the same decoder object, same batch size, OTHER codewords in every row (rows reversed, then the next
                        # rows of the codebook): nothing of the previous decode may survive into this one
                        nb = min(8, len(sel))
                        seqs = [(cw[:nb].flip(0), sel[:nb].flip(0))]
                        if len(sel) >= 2 * nb:
                            seqs.append((cw[nb : 2 * nb], sel[nb : 2 * nb]))
                        seqs.append((cw[:nb], sel[:nb]))
                        for A in (100.0, 25.0, 1.0):
                            for cws, ms in seqs:
                                try:
                                    out = bp((1 - 2 * cws) * A)
                                    ok = tuple(out.shape) == (nb, k) and bool((out == ms).all())
                                    ctx.check(ok, "polar-BP clean decode", f"BeliefPropagationPolarDecoder|{cfgk},{regime}|polar-BP clean decode|wrong message after decoding other codewords with the same batch size", N=N, k=k, A=A, iters=iters)
                                except Exception as e:  # noqa: BLE001
                                    ctx.violation(f"BeliefPropagationPolarDecoder|{cfgk},{regime}|polar-BP clean decode|raised:{type(e).__name__}", N=N, k=k, error=str(e)[:200])
        if u["N"] in (8, 32) and u["k"] in (4, 16, 3):
            ctx.sample({"unit": u["unit"], "N": N, "k": k, "messages": int(len(msgs)), "info_positions": np.nonzero(exp_info)[0].tolist()[:16]})
        return

    if kind == "sc_llr":
        nvec = 40 if q else 400
        compared = skipped = 0
        for N in (2, 4, 8, 16, 32, 64, 128):
            m = N.bit_length() - 1
            br = bitrev_perm(m)
            for fz in (True, False):
                for pi in (False, True):
                    for regime in ("sum_product", "min_sum"):
                        k = rng.randint(1, N - 1)
                        enc = make(N, k, fz, pi)
                        sc = D.SuccessiveCancellationDecoder(enc, regime=regime)
                        info = enc.info_indices.numpy().astype(bool)
                        sig = rng.choice([0.7, 2.0, 4.0])
                        Y = np.array([[rng.gauss(0, sig) for _ in range(N)] for _ in range(nvec // 4)])
                        out = sc(torch.tensor(Y, dtype=torch.float32)).numpy()
                        f = f_sp if regime == "sum_product" else f_ms
                        for i in range(len(Y)):
                            yn = Y[i][br] if pi else Y[i]
                            PEAK[0] = 0.0
                            ur, _, margin = sc_ref(yn, list(info), 0 if fz else 1, f)
                            ctx.case("sc_llr", u["shard"], N, k, fz, pi, regime, i)
                            if regime == "sum_product" and PEAK[0] > 12.0:
                                skipped += 1
                                ctx.skip("check-node input above 12: float32 tanh saturation makes the library's sum-product inexact")
                                continue
                            if margin < 1e-3:
                                skipped += 1
                                ctx.skip("decision LLR below 1e-3 in the reference (tie)")
                                continue
                            compared += 1
                            exp = np.array(ur)[info]
                            ctx.check(bool((out[i] == exp).all()), "SC = textbook SC", f"SuccessiveCancellationDecoder|frozen_{'zeros' if fz else 'ones'},{'interleaved' if pi else 'plain'},{regime}|SC = textbook SC|differs", N=N, k=k, llr=Y[i].tolist()[:32], got=out[i].tolist()[:32], expected=exp.tolist()[:32], margin=margin)
        ctx.note_add("sc_vectors_compared", compared)
        ctx.note_add("sc_vectors_tie_skipped", skipped)
        ctx.sample({"unit": u["unit"], "vectors_compared": compared, "tie_skipped": skipped})
        return

    if kind == "masks":
        # the documented `dtype` option of the encoder (computation dtype): clean LLRs still decode to the message
        for dt in (torch.float64, torch.int64, torch.int32):
            for N, k in ((8, 4), (16, 11), (32, 9)):
                for regime in ("sum_product", "min_sum"):
                    ctx.case("dtype", str(dt), N, k, regime)
                    try:
                        enc = make(N, k, True, False, dtype=dt)
                        msgs = torch.tensor([[rng.getrandbits(1) for _ in range(k)] for _ in range(6)], dtype=torch.float32)
                        cw = enc(msgs.to(dt)).to(torch.float32)  # messages in the encoder's own dtype
                        sc = D.SuccessiveCancellationDecoder(enc, regime=regime)
                    except Exception:  # noqa: BLE001
                        ctx.skip(f"encoder dtype {str(dt).replace('torch.', '')} rejected")
                        continue
                    for A in (0.5, 4.0):
                        try:
                            out = sc((1 - 2 * cw) * A)
                            ok = tuple(out.shape) == tuple(msgs.shape) and bool((out.double() == msgs.double()).all())
                            ctx.check(ok, "SC clean decode", f"SuccessiveCancellationDecoder|encoder dtype option,{regime}|SC clean decode|wrong message", N=N, k=k, A=A, dtype=str(dt), decoded=out[0], message=msgs[0])
                        except Exception as e:  # noqa: BLE001
                            ctx.violation(f"SuccessiveCancellationDecoder|encoder dtype option,{regime}|SC clean decode|raised:{type(e).__name__}", N=N, k=k, dtype=str(dt), error=str(e)[:200])
        for N in (4, 8, 16, 32):
            m = N.bit_length() - 1
            G = kron_power(m)
            br = bitrev_perm(m)
            for trial in range(6 if q else 40):
                k = rng.randint(1, N - 1)
                pos = sorted(rng.sample(range(N), k)) if trial % 3 else list(range(k))  # adversarial: the least reliable first positions
                mask = [i in pos for i in range(N)]
                for fz in (True, False):
                    for pi in (False, True):
                        cfgk = f"user mask,frozen_{'zeros' if fz else 'ones'},{'interleaved' if pi else 'plain'}"
                        enc = make(N, k, fz, pi, load_rank=False, info_indices=torch.tensor(mask) if trial % 2 else mask)
                        msgs = np.array([[rng.getrandbits(1) for _ in range(k)] for _ in range(16)], dtype=np.float32)
                        x = enc(torch.tensor(msgs)).numpy().astype(np.int64)
                        U = np.full((16, N), 0 if fz else 1, dtype=np.int64)
                        U[:, np.array(mask)] = msgs.astype(np.int64)
                        ref = (U @ G) % 2
                        if pi:
                            ref = ref[:, br]
                        ctx.case("mask", N, tuple(pos), fz, pi)
                        ctx.check(bool((ref == x).all()), "encode = u.F^(xn)", f"PolarCodeEncoder|{cfgk}|encode = u.F^(xn)|differs from the Kronecker-power product", N=N, mask=pos)
                        sc = D.SuccessiveCancellationDecoder(enc)
                        out = sc((1 - 2 * torch.tensor(x, dtype=torch.float32)) * 2.0)
                        ctx.check(bool((out.numpy() == msgs).all()), "SC clean decode", f"SuccessiveCancellationDecoder|{cfgk}|SC clean decode|wrong message", N=N, mask=pos)
            # invalid masks are rejected
            for bad in ([True] * (N + 1), [True] * N):
                try:
                    make(N, N // 2, True, False, load_rank=False, info_indices=bad)
                    ctx.violation("PolarCodeEncoder|user mask|invalid mask rejected|accepted", N=N, length=len(bad))
                except (ValueError, AssertionError):
                    ctx.ok("invalid mask rejected")
        ctx.sample({"unit": "user-masks", "N": [4, 8, 16, 32]})
        return
    raise ValueError(kind)
