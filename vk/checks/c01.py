"""C01 - encoder, generator matrix and parity-check matrix describe one and the same code."""
from __future__ import annotations

import random

from vk import core
from vk.oracles import gf2
from vk.workloads import catalogue as cat

PROPERTY = "C01"
RULE = (
    "catalogue of code objects (families x parameters x information sets x random generators, deterministic in (tier, seed)); "
    "per object: all 2^k messages (k<=12) or 2048 seeded messages, all single-bit perturbations of <=32 codewords plus random "
    "multi-bit perturbations confirmed outside the observed code by the reference. A case is distinct by (object id, clause, input digest); "
    "non-trivial = non-zero message / non-codeword perturbation / a structural clause on a constructed object."
    " Added after the seeded-fault rounds: cyclic/BCH codes with ascending and permuted index-list information sets, int64 generator matrices, groups of same-shaped objects wider than 64 columns built in one process (first one judged again at the end), a constructor-argument-reuse unit (same matrix tensor edited in place, second constructor), units grouped by family and (n,k) in one child process."
    " Round 5: form axis - representatives of every (family, information set) also as a deep copy of a used object, after .double(), after .double().float(), and as a twin loaded through state_dict."
)
ASSUMPTIONS = [
    "reference GF(2) arithmetic (vk.oracles.gf2) is trusted after its self-test",
    "float buffers are rounded and reduced mod 2 before comparison",
    "polar codes are judged by C11; the RPTU LDPC database path is not driven (needs network)",
    "Reed-Muller calculate_syndrome returns an n-long pattern: judged only by 'all-zero iff codeword'",
]
REQUIRED = ["encode=mG", "rank(G)=k", "rank(H)=n-k", "G.Ht=0", "syndrome(codeword)=0", "syndrome(non-codeword)!=0", "shape"]
JOBS = {"quick": 4, "thorough": 16}
TIMEOUT = {"quick": 900, "thorough": 3600}


def units(tier, seed):
    out = []
    for spec in cat.catalogue(tier, seed):
        cost = 1
        if spec["family"] in ("bch", "rs"):
            cost = 2 ** spec["mu"] / 4
        if spec["family"] in ("golay",):
            cost = 6
        if spec["family"] == "cyclic":
            cost = 1 + spec["n"] / 8
        # same family, same (n, k): built and used one after the other in one process
        out.append({"unit": f"{spec['family']}#{spec['id']}", "spec": spec, "cost": cost, "group": "%s:%d:%d" % ((spec["family"],) + tuple(cat.nk(spec)))})
    for grp in cat.big_groups(tier, seed):
        out.append({"unit": f"group#{grp['id']}", "spec": grp, "cost": 24})
    out.append({"unit": "constructor-argument-reuse", "spec": {"family": "arg_reuse", "id": 200000}, "cost": 3})
    return out


def _arg_reuse(ctx):
    """The caller's matrix tensor is edited in place and handed to a second constructor: the second object describes
    the second matrix (nothing is keyed on tensor identity).  Whether the first object aliases the caller's tensor is
    not judged (the property does not say)."""
    import torch

    from kaira.models.fec import encoders as E

    rng = random.Random(f"c01-argreuse-{ctx.seed}")
    for trial in range(12):
        k, n = rng.randint(2, 5), rng.randint(6, 10)
        Gl = cat.random_full_rank(rng, k, n, dense=True)
        G = torch.tensor(Gl, dtype=torch.float32)
        kinds = [("generic", lambda t: E.LinearBlockCodeEncoder(t)), ("systematic", lambda t: E.SystematicLinearBlockCodeEncoder(t[:, : n - k].contiguous() if False else t))]
        for kind, mk in kinds[:1] + ([("systematic", lambda t: E.SystematicLinearBlockCodeEncoder(t))] if True else []):
            T = G.clone() if kind == "generic" else torch.tensor(cat.random_matrix(rng, k, n - k), dtype=torch.float32)
            try:
                a = mk(T)
            except Exception:  # noqa: BLE001
                continue
            Ga = a.generator_matrix.clone()
            first = gf2.rows_from_matrix(Ga)
            # in-place edit that keeps full rank: add row 1 to row 0 and flip one entry of the last row
            for attempt in range(20):
                T2 = T.clone()
                T2[0] = (T2[0] + T2[1 % T2.shape[0]]) % 2 if T2.shape[0] > 1 else T2[0]
                j = rng.randrange(T2.shape[1])
                T2[-1, j] = 1 - T2[-1, j]
                if kind == "systematic" or gf2.rank(gf2.rows_from_matrix(T2)) == k:
                    break
            else:
                continue
            T.copy_(T2)  # same tensor object, new contents
            ctx.case("arg-reuse", kind, trial)
            try:
                b = mk(T)
            except Exception as e:  # noqa: BLE001
                ctx.violation(f"{kind}|-|constructible|raised:{type(e).__name__}", error=str(e)[:200])
                continue
            Gb = gf2.rows_from_matrix(b.generator_matrix)
            Hb = gf2.rows_from_matrix(b.check_matrix)
            orth = all(gf2.dot(g, h) == 0 for g in Gb for h in Hb)
            ctx.check(orth and gf2.rank(Hb) == n - k, "G.Ht=0", f"{kind}|-|G.Ht=0|second encoder built from the same (edited) tensor has a check matrix of another code", trial=trial, H=b.check_matrix)
            msgs = torch.tensor([[rng.getrandbits(1) for _ in range(k)] for _ in range(8)], dtype=torch.float32)
            cw = b(msgs)
            ok = bool(torch.equal(cw, (msgs @ b.generator_matrix.float()) % 2)) and bool((b.calculate_syndrome(cw) == 0).all())
            res = b.inverse_encode(cw)
            ok = ok and bool(torch.equal((res[0] if isinstance(res, tuple) else res).float(), msgs))
            ctx.check(ok, "syndrome(codeword)=0", f"{kind}|-|syndrome(codeword)=0|second encoder built from the same (edited) tensor: syndrome / inverse do not match its generator", trial=trial)
            del first


def run_unit(ctx, u):
    import torch

    spec = u["spec"]
    if spec["family"] == "group":
        # same-shaped objects wider than a machine word, built and used one after the other in this process;
        # the first one is judged again at the end (an object must stay right after later ones were built)
        for m in spec["members"] + spec["members"][:1]:
            run_unit(ctx, {"unit": u["unit"], "spec": m})
        return
    if spec["family"] == "arg_reuse":
        _arg_reuse(ctx)
        return
    nm = cat.name(spec)
    rng = random.Random(f"c01-{ctx.seed}-{spec['id']}")
    try:
        enc = cat.build(spec)
    except Exception as e:  # noqa: BLE001
        if spec["family"] == "bch" and "Bose" in str(e) and not spec.get("must_construct"):
            ctx.skip("bch delta rejected as non-Bose")
            return
        ctx.violation(f"{nm}|constructible|raised:{type(e).__name__}", spec=spec, error=str(e)[:300])
        return
    n, k = int(enc.code_length), int(enc.code_dimension)
    G_t, H_t = enc.generator_matrix, enc.check_matrix
    ctx.case("object", spec["id"])

    # ---- advertised shape facts
    shape_ok = tuple(G_t.shape) == (k, n) and int(enc.redundancy) == n - k and H_t.dim() == 2 and H_t.shape[1] == n
    ctx.check(shape_ok, "shape", f"{nm}|shape|inconsistent", spec=spec, G=list(G_t.shape), H=list(H_t.shape), n=n, k=k, redundancy=int(enc.redundancy))
    if not shape_ok:
        return
    G = gf2.rows_from_matrix(G_t)
    H = gf2.rows_from_matrix(H_t)
    rg, rh = gf2.rank(G), gf2.rank(H)
    ctx.check(rg == k, "rank(G)=k", f"{nm}|rank(G)=k|{'deficient' if rg < k else 'excess'}", spec=spec, rank=rg, k=k)
    ctx.check(rh == n - k, "rank(H)=n-k", f"{nm}|rank(H)=n-k|{'deficient' if rh < n - k else 'excess'}", spec=spec, rank=rh, n_k=n - k, H=H_t)
    orth = all(gf2.dot(g, h) == 0 for g in G for h in H)
    ctx.check(orth, "G.Ht=0", f"{nm}|G.Ht=0|nonzero", spec=spec, G=G_t, H=H_t)
    ns_ok = gf2.rowspace_equal(gf2.nullspace(H, n), G)
    ctx.check(ns_ok, "null(H)=rowspace(G)", f"{nm}|null(H)=rowspace(G)|differs", spec=spec)

    # ---- encoding = m.G on all / sampled messages
    msgs, exhaustive = cat.messages_for(rng, k)
    okc, cws = ctx.call(nm, "encode=mG", enc, msgs)
    if not okc:
        return
    good_shape = tuple(cws.shape) == (msgs.shape[0], n)
    binary = bool(((cws == 0) | (cws == 1)).all())
    ctx.check(good_shape and binary, "encode:binary,length n", f"{nm}|encode:binary,length n|{'shape' if not good_shape else 'non-binary'}", spec=spec, out_shape=list(cws.shape))
    if not (good_shape and binary):
        return
    obs = cat.rows_to_ints(cws)
    m_ints = cat.rows_to_ints(msgs)
    bad = None
    for mi, ci in zip(m_ints, obs):
        if gf2.encode(mi, G) != ci:
            bad = (mi, ci)
            break
    for mi in m_ints[:64]:
        ctx.case("msg", mi, nontrivial=mi != 0)
    if bad is None:
        ctx.ok("encode=mG", len(m_ints))
    else:
        ctx.violation(f"{nm}|encode=mG|differs", spec=spec, message=gf2.bits_from_vec(bad[0], k), observed=gf2.bits_from_vec(bad[1], n), expected=gf2.bits_from_vec(gf2.encode(bad[0], G), n))
    if exhaustive:
        inj = len(set(obs)) == 2**k
        ctx.check(inj, "injective", f"{nm}|injective|collision", spec=spec, distinct=len(set(obs)), expected=2**k)
        ctx.exhaustive_units += 1
    # linearity on the observed map itself (independent of published G)
    lin_bad = None
    for _ in range(64):
        a, b = rng.randrange(len(m_ints)), rng.randrange(len(m_ints))
        s = m_ints[a] ^ m_ints[b]
        if exhaustive:
            if obs[s] != obs[a] ^ obs[b]:
                lin_bad = (a, b)
                break
    if exhaustive:
        ctx.check(lin_bad is None, "linear", f"{nm}|linear|E(a+b)!=E(a)+E(b)", spec=spec)

    # the code = span of what the encoder actually emits on unit messages
    unit_idx = [m_ints.index(1 << i) for i in range(k)] if exhaustive else None
    if unit_idx is not None:
        code_basis = [obs[i] for i in unit_idx]
    else:
        okc, ub = ctx.call(nm, "encode=mG", enc, torch.eye(k))
        if not okc:
            return
        code_basis = cat.rows_to_ints(ub)
    cb, cp = gf2.rref(code_basis)

    # ---- syndrome is zero on codewords
    oks, syn = ctx.call(nm, "syndrome(codeword)=0", enc.calculate_syndrome, cws)
    if not oks:
        return
    zero_on_code = bool((syn == 0).all())
    if zero_on_code:
        ctx.ok("syndrome(codeword)=0", len(obs))
    else:
        row = int((syn != 0).any(dim=-1).nonzero()[0])
        ctx.violation(f"{nm}|syndrome(codeword)=0|nonzero", spec=spec, codeword=cws[row], syndrome=syn[row])

    # ---- non-codewords have non-zero syndrome
    picks = [rng.randrange(len(obs)) for _ in range(min(32, len(obs)))]
    words = []
    for pi in picks:
        c = obs[pi]
        for j in range(n):
            words.append(c ^ (1 << j))
        for _ in range(4):
            e = rng.getrandbits(n) if n > 1 else 1
            words.append(c ^ e)
    words = [w for w in dict.fromkeys(words) if not gf2.in_span(cb, cp, w)]
    if words:
        wt = torch.tensor([gf2.bits_from_vec(w, n) for w in words], dtype=torch.float32)
        # Reed-Muller syndromes are a nearest-codeword search over all 2^k messages: above k = 20 it is run
        # under a tight address-space cap so that it fails fast (MemoryError) instead of eating the machine
        big_rm = spec["family"] == "rm" and k > 20
        with core.mem_cap(3 if big_rm else None):
            oks, syn2 = ctx.call(nm, "syndrome(non-codeword)!=0", enc.calculate_syndrome, wt[:4] if big_rm else wt)
        if big_rm and oks:
            wt, words = wt[:4], words[:4]
        if oks:
            nz = (syn2 != 0).any(dim=-1)
            for w in words[:32]:
                ctx.case("noncodeword", w)
            if bool(nz.all()):
                ctx.ok("syndrome(non-codeword)!=0", len(words))
            else:
                row = int((~nz).nonzero()[0])
                ctx.violation(f"{nm}|syndrome(non-codeword)!=0|zero", spec=spec, word=wt[row], syndrome=syn2[row])
    else:
        ctx.skip("no non-codeword exists (k=n)")
    ctx.note_add(f"objects[{spec['family']}]")
    if spec["id"] % 40 == 0:
        ctx.sample({"spec": spec, "n": n, "k": k, "messages": len(m_ints), "exhaustive_messages": exhaustive, "noncodewords_tested": len(words)})
