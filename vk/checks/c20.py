"""C20 - per-sample components are pure: the batch result equals the stack of single results."""
from __future__ import annotations

import contextlib
import io
import itertools
import random

PROPERTY = "C20"
RULE = (
    "encoders / decoders of C01, C02, C10, C11, memoryless modulators / demodulators (hard and soft) of C05/C06 and Total / Average / PAPR / PerAntenna constraints; batches of 1..6 "
    "members in every permutation for B<=4 (24 seeded permutations above), members chosen to trigger special paths individually (zero syndrome next to non-zero, all-zero signal next "
    "to ordinary, ties); layouts 1-D / (B,n) / (B1,B2,n) / (B,b*n), each of which must either agree with per-block evaluation or raise; call histories f(x), f(y), f(x) on one object, "
    "two objects of one configuration interleaved, first call after construction vs later; input tensors checked for modification (_version and values). Distinct = (component, "
    "member set, permutation/layout); non-trivial = batch with >=2 distinct members."
    " Added after the seeded-fault rounds: large mixed batch vs reverse-order singles on a second object, float64/int64/int32/uint8/complex128 inputs for the input-unmodified and repeat-call clauses, strided / expanded / permuted / transposed views, deep copy and state_dict round trip of the used object, variants of one component kind in one child process."
    " Round 5: modem form axis (deep copy, .double().float(), state_dict twin)."
)
ASSUMPTIONS = [
    "per-block reference evaluation is f on a (1, n) tensor (the layout every component documents)",
    "exact equality for encoders, decoders and hard demodulators; 1e-6 relative for LLRs, modulators and constraints (BLAS reduction order)",
    "stateful components (DPSK, OQPSK, pi/4-QPSK, Hysteresis, Dynamic) and random components (channels) are out of scope",
    "raising on a layout is allowed; answering with other values is not",
]
REQUIRED = ["batch = stack of singles", "layout agrees or raises", "repeatable", "input unmodified"]
JOBS = {"quick": 8, "thorough": 16}
TIMEOUT = {"quick": 1200, "thorough": 5400}


def components(tier):
    """name -> dict(make, n (block length in), gen(rng)->1-D block, exact, kind, layouts)"""
    import torch

    from kaira import constraints as K
    from kaira.models.fec import decoders as D
    from kaira.models.fec import encoders as E
    from vk.workloads import modems

    q = tier == "quick"
    out = {}

    def quiet(fn, *a, **kw):
        with contextlib.redirect_stdout(io.StringIO()):
            return fn(*a, **kw)

    def bits(n):
        return lambda rng: torch.tensor([float(rng.getrandbits(1)) for _ in range(n)])

    enc_specs = {
        "hamming(7,4)": lambda: E.HammingCodeEncoder(mu=3),
        "hamming(8,4),right": lambda: E.HammingCodeEncoder(mu=3, extended=True, information_set="right"),
        "bch(15,7)": lambda: E.BCHCodeEncoder(mu=4, delta=5),
        "golay(23,12)": lambda: E.GolayCodeEncoder(),
        "rm(1,3)": lambda: E.ReedMullerCodeEncoder(1, 3),
        "rm(2,4)": lambda: E.ReedMullerCodeEncoder(2, 4),
        "repetition(5)": lambda: E.RepetitionCodeEncoder(5),
        "spc(5)": lambda: E.SingleParityCheckCodeEncoder(5),
        "cyclic(7,4)": lambda: E.CyclicCodeEncoder(code_length=7, generator_polynomial=0b1011),
        "generic(4,8)": lambda: E.LinearBlockCodeEncoder(torch.tensor([[1, 0, 1, 1, 0, 0, 1, 0], [0, 1, 1, 0, 1, 0, 0, 1], [1, 1, 0, 0, 0, 1, 1, 1], [0, 0, 1, 1, 1, 1, 0, 1]], dtype=torch.float32)),
        "ldpc(6,3)": lambda: E.LDPCCodeEncoder(check_matrix=torch.tensor([[1, 1, 0, 1, 0, 0], [0, 1, 1, 0, 1, 0], [1, 0, 1, 0, 0, 1]])),
        "polar(16,8)": lambda: quiet(E.PolarCodeEncoder, 8, 16, frozen_zeros=True),
        "polar(8,3),ones,interleaved": lambda: quiet(E.PolarCodeEncoder, 3, 8, frozen_zeros=False, polar_i=True),
    }
    for nm, mk in enc_specs.items():
        out[f"encoder:{nm}"] = {"make": (lambda mk=mk: quiet(mk)), "n": None, "gen": None, "exact": True, "kind": "encoder"}

    def noisy_word(enc, maxerr):
        def gen(rng, enc=enc):
            k, n = int(enc.code_dimension), int(enc.code_length)
            m = torch.tensor([[float(rng.getrandbits(1)) for _ in range(k)]])
            c = quiet(enc, m)[0].clone()
            for j in rng.sample(range(n), rng.randint(0, maxerr)):
                c[j] = 1 - c[j]
            return c

        return gen

    def llr_word(enc, soft_noise):
        def gen(rng, enc=enc):
            k, n = int(enc.code_dimension), int(enc.code_length)
            m = torch.tensor([[float(rng.getrandbits(1)) for _ in range(k)]])
            c = quiet(enc, m)[0]
            return (1 - 2 * c) * 2.0 + torch.tensor([rng.gauss(0, soft_noise) for _ in range(n)])

        return gen

    dec_specs = [
        ("syndrome:hamming(7,4)", enc_specs["hamming(7,4)"], lambda e: D.SyndromeLookupDecoder(e), 2, None),
        ("syndrome:bch(15,7)", enc_specs["bch(15,7)"], lambda e: D.SyndromeLookupDecoder(e), 3, None),
        ("bruteforce:hamming(7,4)", enc_specs["hamming(7,4)"], lambda e: D.BruteForceMLDecoder(e), 2, None),
        ("bruteforce:generic(4,8)", enc_specs["generic(4,8)"], lambda e: D.BruteForceMLDecoder(e), 3, None),
        ("bm:bch(15,7)", enc_specs["bch(15,7)"], lambda e: D.BerlekampMasseyDecoder(e), 3, None),
        ("bm:bch(15,5),right", lambda: E.BCHCodeEncoder(mu=4, delta=7, information_set="right"), lambda e: D.BerlekampMasseyDecoder(e), 4, None),
        ("rm_majority:rm(1,3)", enc_specs["rm(1,3)"], lambda e: D.ReedMullerDecoder(e), 2, None),
        ("rm_majority:rm(2,4)", enc_specs["rm(2,4)"], lambda e: D.ReedMullerDecoder(e), 2, None),
        ("rm_soft:rm(1,3)", enc_specs["rm(1,3)"], lambda e: D.ReedMullerDecoder(e, input_type="soft"), None, 1.5),
        ("bp:hamming(7,4)", enc_specs["hamming(7,4)"], lambda e: D.BeliefPropagationDecoder(e, bp_iters=5), None, 1.5),
        ("bp:ldpc(6,3)", enc_specs["ldpc(6,3)"], lambda e: D.BeliefPropagationDecoder(e, bp_iters=5), None, 1.5),
        ("minsum:ldpc(6,3)", enc_specs["ldpc(6,3)"], lambda e: D.MinSumLDPCDecoder(e, bp_iters=5), None, 1.5),
        ("wagner:spc(5)", enc_specs["spc(5)"], lambda e: D.WagnerSoftDecisionDecoder(e), None, 1.5),
        ("sc:polar(16,8)", enc_specs["polar(16,8)"], lambda e: D.SuccessiveCancellationDecoder(e), None, 1.5),
        ("sc_minsum:polar(8,3),ones,interleaved", enc_specs["polar(8,3),ones,interleaved"], lambda e: D.SuccessiveCancellationDecoder(e, regime="min_sum"), None, 1.5),
        ("polar_bp:polar(16,8)", enc_specs["polar(16,8)"], lambda e: quiet(D.BeliefPropagationPolarDecoder, e, bp_iters=5), None, 1.5),
        ("hamming.inverse_encode", enc_specs["hamming(7,4)"], lambda e: (lambda r: e.inverse_encode(r)[0]), 1, None),
        ("rm.inverse_encode", enc_specs["rm(1,3)"], lambda e: (lambda r: e.inverse_encode(r)[0]), 2, None),
        ("linear.inverse_encode", enc_specs["generic(4,8)"], lambda e: (lambda r: e.inverse_encode(r)[0]), 2, None),
        ("linear.calculate_syndrome", enc_specs["bch(15,7)"], lambda e: e.calculate_syndrome, 3, None),
    ]
    for nm, mkenc, mkdec, maxerr, soft in dec_specs:
        def make(mkenc=mkenc, mkdec=mkdec):
            e = quiet(mkenc)
            d = quiet(mkdec, e)
            return d, e

        out[f"decoder:{nm}"] = {"make": make, "maxerr": maxerr, "soft": soft, "exact": soft is None or nm.startswith(("wagner", "sc", "polar_bp", "rm_soft", "bp", "minsum")), "kind": "decoder"}

    for s in modems.catalogue(tier):
        if s.get("via") != "direct" or s["scheme"] in modems.MEMORY or s["scheme"] == "identity":
            continue
        if q and (s.get("order", 4) > 16 or s.get("normalize") is False):
            continue
        out[f"modem:{modems.cfg(s)}"] = {"spec": s, "kind": "modem"}

    out["constraint:total"] = {"make": lambda: K.TotalPowerConstraint(3.0), "kind": "constraint"}
    out["constraint:average"] = {"make": lambda: K.AveragePowerConstraint(0.5), "kind": "constraint"}
    out["constraint:papr"] = {"make": lambda: K.PAPRConstraint(max_papr=2.5), "kind": "constraint"}
    out["constraint:perantenna"] = {"make": lambda: K.PerAntennaPowerConstraint(uniform_power=1.5), "kind": "constraint", "antenna": True}
    return out


def units(tier, seed):
    import warnings

    warnings.filterwarnings("ignore")
    names = list(components(tier))  # imports kaira in the parent as well (names only)
    def grp(nm):
        # variants of one component kind (same decoder kind / same modulation scheme and order) share a process
        parts = nm.split(":")
        if parts[0] == "modem":
            return "modem:" + ",".join(parts[1].split(",")[:2])
        return ":".join(parts[:2]).split("(")[0]

    return [{"unit": nm, "name": nm, "cost": 3 if nm.startswith(("decoder:bm", "decoder:polar_bp", "constraint:papr")) else 1, "group": grp(nm)} for nm in names]


def close(a, b, exact):
    import torch

    if tuple(a.shape) != tuple(b.shape):
        return False
    if exact:
        return bool(torch.equal(a.double() if not torch.is_complex(a) else a, b.double() if not torch.is_complex(b) else b))
    return bool(torch.allclose(a.to(b.dtype) if a.dtype != b.dtype else a, b, rtol=1e-6, atol=1e-6 * (float(b.abs().max()) + 1e-12)))


def run_unit(ctx, u):
    import torch

    from vk.workloads import modems

    name = u["name"]
    comp = components(ctx.tier)[name]
    rng = random.Random(f"c20-{ctx.seed}-{name}")
    q = ctx.tier == "quick"
    kind = comp["kind"]
    cls = name.split(":")[0] + ":" + name.split(":")[1].split("(")[0].split(",")[0]

    fs = {}  # label -> (callable, block_in, generator, exact)
    if kind == "encoder":
        enc = comp["make"]()
        k = int(enc.code_dimension)
        fs["encode"] = (enc, k, lambda r: torch.tensor([float(r.getrandbits(1)) for _ in range(k)]), True, comp["make"])
    elif kind == "decoder":
        d, e = comp["make"]()
        n = int(e.code_length)
        if comp["soft"] is None:
            k_, n_ = int(e.code_dimension), n

            def gen(r, e=e, maxerr=comp["maxerr"]):
                m = torch.tensor([[float(r.getrandbits(1)) for _ in range(k_)]])
                with contextlib.redirect_stdout(io.StringIO()):
                    c = e(m)[0].clone()
                for j in r.sample(range(n_), r.choice([0, 0, 1, maxerr])):
                    c[j] = 1 - c[j]
                return c

        else:
            def gen(r, e=e, sig=comp["soft"]):
                k_, n_ = int(e.code_dimension), int(e.code_length)
                m = torch.tensor([[float(r.getrandbits(1)) for _ in range(k_)]])
                with contextlib.redirect_stdout(io.StringIO()):
                    c = e(m)[0]
                return (1 - 2 * c) * 2.0 + torch.tensor([r.gauss(0, sig) for _ in range(n_)])

        fs["decode"] = (d, n, gen, True, lambda: comp["make"]()[0])
    elif kind == "modem":
        s = comp["spec"]
        b = modems.bits_per_symbol(s)
        mod, dem = modems.build(s)
        ns = 4
        fs["modulate"] = (mod, b * ns, lambda r: torch.tensor([float(r.getrandbits(1)) for _ in range(b * ns)]), False, lambda: modems.build(s)[0])

        def ysym(r):
            re = torch.tensor([r.gauss(0, 1) for _ in range(ns)])
            return torch.complex(re, torch.tensor([r.gauss(0, 1) for _ in range(ns)]))

        fs["demodulate:hard"] = (dem, ns, ysym, True, lambda: modems.build(s)[1])
        fs["demodulate:soft"] = ((lambda y: dem(y, 0.7)), ns, ysym, False, lambda: (lambda y, d2=modems.build(s)[1]: d2(y, 0.7)))
    else:
        c = comp["make"]()
        ant = comp.get("antenna", False)
        shape = (2, 12) if ant else (24,)

        def gsig(r):
            kind_ = r.choice(["gauss", "gauss", "zero", "big", "const"])
            if kind_ == "zero":
                return torch.zeros(shape)
            t = torch.tensor([r.gauss(0, 1) for _ in range(int(torch.tensor(shape).prod()))]).reshape(shape)
            if kind_ == "big":
                t = t * 1e3
            if kind_ == "const":
                t = torch.ones(shape) * 0.3
            return t

        fs["constrain"] = (c, shape, gsig, False, comp["make"])

    for label, (f, n_in, gen, exact, remake) in fs.items():
        is_con = kind == "constraint"

        def single(x, f=f):
            """reference: per-sample evaluation on a batch of one."""
            with contextlib.redirect_stdout(io.StringIO()):
                out = f(x.unsqueeze(0))
            return out[0]

        def call(x, f=f):
            with contextlib.redirect_stdout(io.StringIO()):
                return f(x)

        pool = [gen(rng) for _ in range(6)]
        if kind == "decoder" and comp["soft"] is None:
            pool[0] = pool[1].clone()  # a duplicate member
        try:
            refs = [single(x) for x in pool]
        except Exception as e:  # noqa: BLE001
            ctx.violation(f"{cls}|{label}|batch = stack of singles|batch-of-1 raised:{type(e).__name__}", component=name, error=str(e)[:300])
            continue
        # ---------------- batch = stack of singles, every permutation
        for B in range(1, 7):
            perms = list(itertools.permutations(range(B))) if B <= 4 else [tuple(rng.sample(range(6), B)) for _ in range(24 if not q else 8)]
            if B <= 4 and q:
                perms = perms if B <= 3 else rng.sample(perms, 8)
            for perm in perms:
                xs = [pool[i] for i in perm]
                X = torch.stack(xs)
                snap, ver = X.clone(), X._version
                ctx.case(name, label, "perm", perm, nontrivial=B >= 2)
                try:
                    out = call(X)
                except Exception as e:  # noqa: BLE001
                    ctx.violation(f"{cls}|{label}|batch = stack of singles|(B,n) raised:{type(e).__name__}", component=name, batch=B, error=str(e)[:300])
                    continue
                if isinstance(out, tuple):
                    out = out[0]
                ctx.check(bool(torch.equal(X, snap)) and X._version == ver, "input unmodified", f"{cls}|{label}|input unmodified|input tensor changed", component=name)
                exp = torch.stack([refs[i] for i in perm])
                ok = close(out, exp, exact)
                if not ok:
                    rows = [r for r in range(B) if tuple(out.shape) == tuple(exp.shape) and not close(out[r], exp[r], exact)]
                    ctx.violation(f"{cls}|{label}|batch = stack of singles|row differs from the single-sample result", component=name, batch=B, permutation=list(perm), rows=rows, member=xs[rows[0]] if rows else None, got=out[rows[0]] if rows else list(out.shape), expected=exp[rows[0]] if rows else list(exp.shape))
                else:
                    ctx.ok("batch = stack of singles")
        # ---------------- other dtypes of the same values: the caller's tensor is never written to, and a second call
        # with the same tensor gives the same answer (an in-place update on an aliased working copy breaks both)
        X0 = torch.stack(pool[:3])
        if torch.is_complex(X0):
            dts = [torch.complex128]
        elif bool(((X0 == 0) | (X0 == 1)).all()):
            dts = [torch.float64, torch.int64, torch.int32, torch.uint8]
        else:
            dts = [torch.float64]
        for dt in dts:
            X = X0.to(dt)
            snap, ver = X.clone(), X._version
            ctx.case(name, label, "dtype", str(dt))
            try:
                o1 = call(X)
                o2 = call(X)
            except Exception:  # noqa: BLE001
                ctx.skip(f"dtype {str(dt).replace('torch.', '')} rejected")
                continue
            o1, o2 = [t[0] if isinstance(t, tuple) else t for t in (o1, o2)]
            ctx.check(bool(torch.equal(X, snap)) and X._version == ver, "input unmodified", f"{cls}|{label}|input unmodified|input tensor changed ({str(dt).replace('torch.', '')})", component=name)
            ctx.check(close(o1, o2, exact), "repeatable", f"{cls}|{label}|repeatable|second call with the same {str(dt).replace('torch.', '')} tensor differs", component=name)
        # ---------------- large mixed batch vs singles evaluated in reverse order on a second object: a cache or
        # state keyed too coarsely gives order-dependent answers (many members guarantee key collisions)
        if kind in ("decoder", "encoder"):
            try:
                big = [gen(rng) for _ in range(40 if q else 120)]
                f_b = remake()
                with contextlib.redirect_stdout(io.StringIO()):
                    out_big = f(torch.stack(big))
                    out_big = out_big[0] if isinstance(out_big, tuple) else out_big
                    rev = {}
                    for i in reversed(range(len(big))):
                        o = f_b(big[i].unsqueeze(0))
                        rev[i] = (o[0] if isinstance(o, tuple) else o)[0]
                exp_big = torch.stack([rev[i] for i in range(len(big))])
                ctx.case(name, label, "big-batch-vs-reverse-singles")
                okb = close(out_big, exp_big, exact)
                rows = [r for r in range(len(big)) if tuple(out_big.shape) == tuple(exp_big.shape) and not close(out_big[r], exp_big[r], exact)]
                ctx.check(okb, "batch = stack of singles", f"{cls}|{label}|batch = stack of singles|large batch differs from singles evaluated in reverse order on a second object", component=name, rows=rows[:8], member=big[rows[0]] if rows else None)
            except Exception as e:  # noqa: BLE001
                ctx.violation(f"{cls}|{label}|batch = stack of singles|large batch raised:{type(e).__name__}", component=name, error=str(e)[:300])

        # ---------------- layouts (block-structured components only)
        if not is_con:
            n_blk = n_in
            lays = {
                "1-D": (pool[0], refs[0]),
                "(B1,B2,n)": (torch.stack([torch.stack(pool[0:3]), torch.stack(pool[3:6])]), torch.stack([torch.stack(refs[0:3]), torch.stack(refs[3:6])])),
                "(B,b*n)": (torch.stack([torch.cat(pool[0:2]), torch.cat(pool[2:4]), torch.cat(pool[4:6])]), torch.stack([torch.cat(refs[0:2]), torch.cat(refs[2:4]), torch.cat(refs[4:6])])),
                "1-D,b*n": (torch.cat(pool[0:3]), torch.cat(refs[0:3])),
            }
            # the same values in a non-contiguous tensor (every second column of a wider one) and in an expanded view
            wide = torch.stack([torch.stack([x, x.flip(0)], dim=-1).reshape(-1) for x in pool[0:3]])  # (3, 2n)
            lays["(B,n),strided view"] = (wide[:, ::2], torch.stack(refs[0:3]))
            lays["(B,n),expanded"] = (pool[0].unsqueeze(0).expand(3, -1), torch.stack([refs[0]] * 3))
            x3, e3 = lays["(B1,B2,n)"]
            lays["(B1,B2,n),permuted view"] = (x3.permute(1, 0, 2).contiguous().permute(1, 0, 2), e3)
            xb, eb = lays["(B,b*n)"]
            lays["(B,b*n),transposed view"] = (xb.t().contiguous().t(), eb)
            for lname, (X, exp) in lays.items():
                ctx.case(name, label, "layout", lname)
                try:
                    out = call(X)
                except Exception:  # noqa: BLE001
                    ctx.ok("layout agrees or raises")
                    ctx.note_add(f"layout_rejected[{lname}]")
                    continue
                if isinstance(out, tuple):
                    out = out[0]
                ok = close(out, exp, exact)
                ctx.check(ok, "layout agrees or raises", f"{cls}|{label},{lname}|layout agrees or raises|answered with values different from per-block evaluation", component=name, in_shape=list(X.shape), out_shape=list(out.shape), expected_shape=list(exp.shape))
        # ---------------- histories: repeat, interleave, second object, first vs later
        try:
            f2 = remake()
            if kind == "decoder":
                pass
            a1 = call(torch.stack(pool[:2]))
            b1 = call(torch.stack(pool[2:5]))
            a2 = call(torch.stack(pool[:2]))
            with contextlib.redirect_stdout(io.StringIO()):
                first = f2(torch.stack(pool[:2]))
                _ = f2(torch.stack(pool[3:4]))
                later = f2(torch.stack(pool[:2]))
            a1, a2, first, later = [t[0] if isinstance(t, tuple) else t for t in (a1, a2, first, later)]
            ok = close(a1, a2, True) and close(first, later, True) and close(first, a1, exact)
            if isinstance(f, torch.nn.Module):
                # a deep copy of the used object, and the object after a state_dict round trip, answer alike
                import copy

                try:
                    with contextlib.redirect_stdout(io.StringIO()):
                        fc = copy.deepcopy(f)
                        sd = copy.deepcopy(f.state_dict())
                except Exception as e:  # noqa: BLE001 - copyability itself is not part of the property
                    ctx.skip(f"object cannot be deep-copied ({type(e).__name__})")
                    fc = None
                if fc is not None:
                    with contextlib.redirect_stdout(io.StringIO()):
                        c1 = fc(torch.stack(pool[:2]))
                        f.load_state_dict(sd)
                        c2 = f(torch.stack(pool[:2]))
                    c1, c2 = [t[0] if isinstance(t, tuple) else t for t in (c1, c2)]
                    ok = ok and close(c1, a1, True) and close(c2, a1, True)
            ctx.case(name, label, "history")
            ctx.check(ok, "repeatable", f"{cls}|{label}|repeatable|f(x) differs between calls / objects", component=name)
        except Exception as e:  # noqa: BLE001
            ctx.violation(f"{cls}|{label}|repeatable|raised:{type(e).__name__}", component=name, error=str(e)[:300])
    if len(ctx.samples) < 6 and rng.random() < 0.15:
        ctx.sample({"unit": name, "functions": list(fs), "batch_sizes": "1..6", "layouts": ["1-D", "(B,n)", "(B1,B2,n)", "(B,b*n)", "1-D,b*n"]})
