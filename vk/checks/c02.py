"""C02 - hard-decision decoders correct every pattern within advertised capability; complete
decoders are maximum-likelihood."""
from __future__ import annotations

import itertools
import random

import numpy as np

from vk.oracles import gf2
from vk.workloads import catalogue as cat

PROPERTY = "C02"
RULE = (
    "(code, decoder) pairings: syndrome-lookup (n-k<=12) and brute-force ML (k<=10) on catalogue codes, Berlekamp-Massey on every accepted BCH design distance and both "
    "information sets, Reed-Muller majority decoder (hard), Hamming inverse_encode, Reed-Muller inverse_encode. Bounded-distance clause: codewords x all error patterns of "
    "weight<=t when the product fits the budget (marked exhaustive), else seeded codewords x all patterns of weight<=2 + seeded patterns per higher weight; every case is a row of a "
    "batch whose other rows are different cases, a prefix is also decoded 1-D. ML clause: all 2^n words for small n, seeded words above; distance to the decoded codeword "
    "must equal the reference minimum. Distinct = (code, decoder, received word); non-trivial = error weight>=1 or non-codeword."
    " Added after the seeded-fault rounds: units of one decoder kind and code shape run in one child process; batch sizes cycle through 1..601 plus one 640-row batch per pairing; on-demand brute-force decoder (precompute_codebook=False); Berlekamp-Massey paired with 'left'/'right' information sets only (as the property states)."
    " Round 5: sampled error patterns are weighted towards the capability edge (weight t-1 and t get four times the share); form axis of the catalogue (deep copy, .double(), .double().float(), state_dict twin) for every decoder pairing of the representatives."
)
ASSUMPTIONS = [
    "t = floor((d_adv-1)/2) with d_adv the advertised distance (minimum_distance / delta / error_correction_capability / documented family value); generic codes without advertisement use the reference's true d",
    "when the reference finds true d < advertised d the violation is keyed to the encoder (advertised_t_unattainable) and the decoder is tested at the attainable t",
    "ties in the ML clause accept every nearest codeword",
    "decoders are given float 0/1 inputs",
]
REQUIRED = ["bounded-distance:message", "ml:nearest codeword", "return_errors:r+e=codeword"]
JOBS = {"quick": 8, "thorough": 16}
TIMEOUT = {"quick": 1200, "thorough": 5400}


def _pairings(spec, n, k):
    f = spec["family"]
    out = []
    if f == "bch" and spec.get("info_kind") in ("left", "right"):
        # the property pairs Berlekamp-Massey with BCH codes in "both information sets"; with an index-list
        # information set the code is a column permutation of the cyclic code, which BM's syndromes do not follow
        out.append("bm")
    # Reed-Muller's calculate_syndrome is a brute-force search returning an n-long pattern, so the
    # syndrome table has up to 2^n keys and each probe costs 2^k: only tiny RM codes are paired.
    if n - k <= 12 and n <= 24 and not (f == "rm" and n > 8):
        out.append("syndrome")
    if k <= 10:
        out.append("bruteforce")
    if k <= 7:
        out.append("bruteforce_ondemand")  # the non-default precompute_codebook=False path
    if f == "rm":
        out += ["rm_majority", "rm_inverse"]
    if f == "hamming":
        out.append("hamming_inverse")
    return out


_nk = cat.nk


def units(tier, seed):
    q = tier == "quick"
    out = []
    seen_cyc = set()
    for spec in cat.catalogue(tier, seed):
        f = spec["family"]
        n, k = _nk(spec)
        if f == "cyclic":
            if spec["src"] != "g":
                continue
            if q and n == 15 and spec["g"] not in (0b10011, 0b111010001, 0b10100110111, 0b11001, 0b1111):
                continue
        if f == "bch" and not spec.get("must_construct") and spec["delta"] > 3 and q:
            # quick: textbook Bose distances + delta in {2,3}; thorough: every accepted delta
            pass
        if f == "golay" and q and spec["info"] == "right":
            continue
        if f == "rs" and q and spec["mu"] > 2 and spec["delta"] > 3:
            continue
        for dec in _pairings(spec, n, k):
            cost = 1.0
            if dec == "bm":
                cost = (n / 15) ** 2 * 4
            if dec == "syndrome":
                cost = 1 + 2 ** max(0, n - k - 6) / 8
            if dec in ("bruteforce", "bruteforce_ondemand"):
                cost = 1 + 2 ** max(0, k - 6) / 4
            if dec.startswith("rm"):
                cost = 2 + n / 8
            # same class, same (n, k), same decoder kind: built and used one after the other in one process
            out.append({"unit": f"{f}#{spec['id']}:{dec}", "spec": spec, "decoder": dec, "cost": cost, "group": f"{f}:{n}:{k}:{dec}"})
    return out


def _advertised_d(enc, spec):
    f = spec["family"]
    if f == "bch" or f == "rs":
        return int(enc.delta)
    if f == "repetition":
        return int(enc.code_length)
    md = getattr(enc, "minimum_distance", None)
    if md is None:
        return None
    try:
        return int(md() if callable(md) else md)
    except Exception:  # noqa: BLE001
        return None


def _make_decoder(dec, enc):
    from kaira.models.fec import decoders as D

    if dec == "syndrome":
        return D.SyndromeLookupDecoder(enc)
    if dec == "bruteforce":
        return D.BruteForceMLDecoder(enc)
    if dec == "bruteforce_ondemand":
        return D.BruteForceMLDecoder(enc, precompute_codebook=False)
    if dec == "bm":
        return D.BerlekampMasseyDecoder(enc)
    if dec == "rm_majority":
        return D.ReedMullerDecoder(enc, input_type="hard")
    if dec == "rm_inverse":
        if int(enc.code_dimension) > 20:
            # nearest-codeword search over all 2^k messages: run under a tight address-space cap so that it
            # fails fast (MemoryError, recorded) instead of eating the machine
            from vk import core

            def capped(r, **kw):
                with core.mem_cap(3):
                    return enc.inverse_encode(r)[0]

            return capped
        return lambda r, **kw: enc.inverse_encode(r)[0]
    if dec == "hamming_inverse":
        return lambda r, **kw: enc.inverse_encode(r)[0]
    raise ValueError(dec)


COMPLETE = {"syndrome", "bruteforce", "bruteforce_ondemand", "rm_inverse"}


def _patterns(rng, n, t, budget):
    """Error patterns of weight 0..t: all if they fit the budget, else all of weight<=2 (capped) and seeded ones above."""
    from math import comb

    total = sum(comb(n, w) for w in range(t + 1))
    if total <= budget:
        pats = [0]
        for w in range(1, t + 1):
            for pos in itertools.combinations(range(n), w):
                pats.append(sum(1 << p for p in pos))
        return pats, True
    pats = [0] + [1 << p for p in range(n)] if t >= 1 else [0]
    if t >= 2:
        pairs = [(1 << a) | (1 << b) for a, b in itertools.combinations(range(n), 2)]
        rng.shuffle(pairs)
        pats += pairs[: max(10, budget // 3)]
    for w in range(3, t + 1):
        # the patterns at the edge of the capability (weight t-1 and t) are where a bounded-distance decoder has no slack:
        # they get four times the share of the lighter ones
        share = max(10, budget // (3 * max(1, t - 2))) * (4 if w >= max(3, t - 1) and t >= 4 else 1)
        for _ in range(min(share, comb(n, w))):
            pats.append(sum(1 << p for p in rng.sample(range(n), w)))
    return pats, False


def _to_tensor(words, n):
    import torch

    arr = np.array([[(w >> j) & 1 for j in range(n)] for w in words], dtype=np.float32).reshape(len(words), n)
    return torch.from_numpy(arr)


def run_unit(ctx, u):
    import torch

    spec, dec = u["spec"], u["decoder"]
    q = ctx.tier == "quick"
    rng = random.Random(f"c02-{ctx.seed}-{u['unit']}")
    try:
        enc = cat.build(spec)
    except Exception as e:  # noqa: BLE001
        if spec["family"] == "bch" and "Bose" in str(e) and not spec.get("must_construct"):
            ctx.skip("bch delta rejected as non-Bose")
            return
        ctx.violation(f"{cat.name(spec)}|constructible|raised:{type(e).__name__}", spec=spec, error=str(e)[:300])
        return
    n, k = int(enc.code_length), int(enc.code_dimension)
    nm = f"{dec}|{cat.name(spec)}"
    basis = cat.rows_to_ints(enc(torch.eye(k)))
    rb, piv = gf2.rref(basis)
    if len(rb) != k:
        ctx.skip("encoder not injective (C01's business)")
        return
    # message index m (bit i <-> row i) -> codeword
    if k <= 16:
        codebook = gf2.span(basis)  # index = message int
    else:
        codebook = None
    d_true = gf2.min_distance(rb, n) if (k <= 20 or n - k <= 20) else None
    d_adv = _advertised_d(enc, spec)
    if d_adv is None:
        d_adv = d_true
    if d_true is not None and d_adv is not None and (d_true - 1) // 2 < (d_adv - 1) // 2:
        # same configuration classes as C03 (cyclic codes: advertisement rule changes at k = 12)
        ktag = (",k>12" if k > 12 else ",k<=12") if spec["family"] in ("cyclic", "cyclic_std") else ""
        ctx.violation(f"encoder|{cat.name(spec)}{ktag}|advertised_t_attainable|advertised_t_unattainable", spec=spec, d_true=d_true, d_advertised=d_adv)
        d_adv = d_true
    if d_adv is None:
        ctx.skip("no distance available")
        return
    t = (d_adv - 1) // 2
    if dec == "hamming_inverse":
        t = min(t, 1)

    try:
        decoder = _make_decoder(dec, enc)
    except Exception as e:  # noqa: BLE001
        ctx.violation(f"{nm}|decoder constructible|raised:{type(e).__name__}", spec=spec, error=str(e)[:300])
        return

    def encode_ref(mi):
        return int(codebook[mi]) if codebook is not None else gf2.encode(mi, basis)

    def run_decoder(words, return_errors=False, one_d=False):
        x = _to_tensor(words, n)
        if one_d:
            outs = [decoder(x[i], **({"return_errors": True} if return_errors else {})) for i in range(x.shape[0])]
            if return_errors:
                return torch.stack([o[0] for o in outs]), torch.stack([o[1] for o in outs])
            return torch.stack(outs)
        return decoder(x, **({"return_errors": True} if return_errors else {}))

    # ------------------------------------------------------------ bounded-distance clause
    budget = 1500 if q else 12000
    if dec == "bm":
        budget = (400 if n <= 15 else 100) if q else (3000 if n <= 15 else (600 if n <= 31 else 150))
    pats, all_pats = _patterns(rng, n, t, budget)
    n_cw = max(1, budget // max(1, len(pats)))
    if 2**k <= n_cw:
        msgs = list(range(2**k))
        all_msgs = True
    else:
        msgs = [0, (1 << k) - 1] + [rng.getrandbits(k) for _ in range(max(2, min(n_cw, 64)) - 2)]
        all_msgs = False
    cases = []  # (msg int, error int)
    if all_msgs and all_pats:
        cases = [(m, e) for m in msgs for e in pats]
        ctx.exhaustive_units += 1
    else:
        for e in pats:
            cases.append((rng.choice(msgs), e))
        for m in msgs:
            cases.append((m, rng.choice(pats)))
    rng.shuffle(cases)
    cases = cases[: budget * 2]
    words = [encode_ref(m) ^ e for m, e in cases]
    # batch rows: position in batch varies, neighbours are different cases; batch sizes vary from 1 to a few hundred
    # (a decoder that works through a large batch in slices must not lose the tail)
    fails = 0
    bounds, pos, bi = [], 0, 0
    while pos < len(cases):
        B = (7, 1, 45, 2, 203, 7, 7, 64, 601)[bi % 9]
        bounds.append((pos, min(len(cases), pos + B)))
        pos += B
        bi += 1
    for s, s_end in bounds:
        chunk = cases[s:s_end]
        wchunk = words[s:s_end]
        try:
            out = run_decoder(wchunk)
        except Exception as e:  # noqa: BLE001
            ctx.violation(f"{nm}|bounded-distance:message|raised:{type(e).__name__}", spec=spec, error=str(e)[:300], batch=len(wchunk))
            fails += 1
            if fails > 3:
                break
            continue
        if tuple(out.shape) != (len(chunk), k):
            ctx.violation(f"{nm}|bounded-distance:shape|wrong", spec=spec, out_shape=list(out.shape), expected=[len(chunk), k])
            break
        got = cat.rows_to_ints(out)
        for row, ((m, e), g) in enumerate(zip(chunk, got)):
            wt = bin(e).count("1")
            ctx.case(dec, spec["id"], m, e, nontrivial=wt >= 1)
            wclass = "w=0" if wt == 0 else ("w=1" if wt == 1 else "w>=2")
            if g == m:
                ctx.ok("bounded-distance:message")
            else:
                ctx.violation(
                    f"{nm}|bounded-distance:message|wrong message,{wclass}",
                    spec=spec, t=t, message=gf2.bits_from_vec(m, k), error_positions=[j for j in range(n) if (e >> j) & 1], decoded=gf2.bits_from_vec(g, k), row_in_batch=row, batch=len(chunk),
                )
    # one large batch (several hundred rows of seeded codewords + patterns of weight <= t): a decoder that works
    # through a big batch in slices must not lose or misplace rows
    if dec in ("rm_inverse", "rm_majority", "syndrome", "bruteforce", "hamming_inverse") and n <= 32 and not (dec == "rm_inverse" and k > 20):
        NB = 640
        big = [(rng.getrandbits(k), rng.choice(pats)) for _ in range(NB)]
        try:
            out = run_decoder([encode_ref(m) ^ e for m, e in big])
            got = cat.rows_to_ints(out) if tuple(out.shape) == (NB, k) else None
            if got is None:
                ctx.violation(f"{nm}|bounded-distance:shape|wrong", spec=spec, out_shape=list(out.shape), expected=[NB, k])
            else:
                wrong = [i for i, ((m, e), gm) in enumerate(zip(big, got)) if gm != m]
                ctx.case(dec, spec["id"], "large-batch")
                ctx.check(not wrong, "bounded-distance:message", f"{nm}|bounded-distance:message|wrong message in a batch of {NB}", spec=spec, t=t, wrong_rows=wrong[:10], n_wrong=len(wrong))
        except Exception as e:  # noqa: BLE001
            ctx.violation(f"{nm}|bounded-distance:message|raised:{type(e).__name__} on a batch of {NB}", spec=spec, error=str(e)[:300])
    # a prefix decoded 1-D as well
    pre = min(6 if q else 24, len(cases))
    try:
        out1 = run_decoder(words[:pre], one_d=True)
        got1 = cat.rows_to_ints(out1.reshape(pre, -1)) if out1.numel() == pre * k else None
        if got1 is None:
            ctx.violation(f"{nm}|bounded-distance:shape|wrong (1-D input)", spec=spec, out_shape=list(out1.shape))
        else:
            for (m, e), g in zip(cases[:pre], got1):
                ctx.check(g == m, "bounded-distance:message(1-D)", f"{nm}|bounded-distance:message(1-D)|wrong message", spec=spec, message=m, error=e, decoded=g)
    except Exception as e:  # noqa: BLE001
        ctx.violation(f"{nm}|bounded-distance:message(1-D)|raised:{type(e).__name__}", spec=spec, error=str(e)[:300])

    # ------------------------------------------------------------ return_errors consistency
    if dec in ("syndrome", "bruteforce", "bruteforce_ondemand", "bm", "rm_majority"):
        try:
            sel = list(range(min(5, len(words))))
            d_out, e_out = run_decoder([words[i] for i in sel], return_errors=True)
            dm = cat.rows_to_ints(d_out)
            ee = cat.rows_to_ints(e_out)
            for i, m_hat, e_hat in zip(sel, dm, ee):
                ok = (words[i] ^ e_hat) == encode_ref(m_hat)
                ctx.check(ok, "return_errors:r+e=codeword", f"{nm}|return_errors:r+e=codeword|inconsistent", spec=spec, received=gf2.bits_from_vec(words[i], n), errors=gf2.bits_from_vec(e_hat, n), decoded=gf2.bits_from_vec(m_hat, k))
        except Exception as e:  # noqa: BLE001
            ctx.violation(f"{nm}|return_errors:r+e=codeword|raised:{type(e).__name__}", spec=spec, error=str(e)[:300])

    # ------------------------------------------------------------ ML clause (complete decoders)
    if dec in COMPLETE and codebook is not None:
        cb = codebook.astype(np.uint64)
        lim = 9 if q else 12
        if n <= lim:
            rwords = list(range(2**n))
            ctx.exhaustive_units += 1
        else:
            rwords = [rng.getrandbits(n) for _ in range(150 if q else 4000)]
        if dec == "bruteforce" and k >= 9:
            rwords = rwords[: 60 if q else 1500]
        for s in range(0, len(rwords), 64):
            chunk = rwords[s : s + 64]
            try:
                out = run_decoder(chunk)
            except Exception as e:  # noqa: BLE001
                ctx.violation(f"{nm}|ml:nearest codeword|raised:{type(e).__name__}", spec=spec, error=str(e)[:300])
                break
            if tuple(out.shape) != (len(chunk), k):
                ctx.violation(f"{nm}|ml:shape|wrong", spec=spec, out_shape=list(out.shape))
                break
            got = cat.rows_to_ints(out)
            for r, g in zip(chunk, got):
                dmin = int(gf2.popcount_u64(cb ^ np.uint64(r)).min())
                dgot = bin(int(cb[g]) ^ r).count("1")
                ctx.case(dec, spec["id"], "ml", r, nontrivial=dmin > 0)
                if dgot == dmin:
                    ctx.ok("ml:nearest codeword")
                else:
                    ctx.violation(f"{nm}|ml:nearest codeword|farther codeword chosen", spec=spec, received=gf2.bits_from_vec(r, n), decoded=gf2.bits_from_vec(g, k), distance=dgot, minimum=dmin)
    ctx.note_add(f"pairings[{dec}]")
    if spec["id"] % 30 == 0:
        ctx.sample({"unit": u["unit"], "spec": spec, "n": n, "k": k, "t": t, "d_true": d_true, "cases": len(cases), "all_messages": all_msgs, "all_patterns_up_to_t": all_pats, "first_case": {"message": cases[0][0], "error": cases[0][1]}})
