"""C12 - binary channels follow their transition law and never leave their alphabet."""
from __future__ import annotations

import hashlib

from vk.oracles import stats

PROPERTY = "C12"
PLANNED_TESTS = 6000
ALPHA = 1e-9 / PLANNED_TESTS
RULE = (
    "BSC / Z / BEC x probability in {0,1e-3,0.01,0.1,0.3,0.5,0.9,0.999,1} x alphabets {0,1} and {-1,+1} (bipolar inputs contain a -1) x dtypes float32/float64/int64/bool x shapes; "
    "exact clauses (support, Z never raises a 0, BEC leaves unerased symbols, p=0 identity, p=1 extreme, input not modified) on every sample; statistical clauses (rate, rate per "
    "input symbol, conditional rate given the neighbour's event at lag 1, lag 2 and across the batch axis) with exact Binomial acceptance intervals at level 1e-9/6000 per test on "
    "N=1e6 (quick) / 4e6 (thorough) symbols. Distinct = configuration; non-trivial = 0<p<1."
    " Added after the seeded-fault rounds: many short calls (total events and event-free calls, exact binomial), one channel object across alternating alphabets/shapes/dtypes, erasure symbols 2, 0.5, inf, nan."
)
ASSUMPTIONS = [
    "per-test level alpha = 1e-9 / 6000 (union bound over at most 6000 planned tests; the evidence reports how many were run)",
    "torch's global generator is seeded per configuration; a rejection replays bit-for-bit",
    "BEC in bipolar format is driven with an explicit erasure symbol (0) because the default -1 is a valid input symbol there; the default-symbol configuration is judged on the +1 inputs only",
    "a dtype the channel's arithmetic rejects is counted as rejected, not judged",
]
REQUIRED = ["support", "p=0 identity", "p=1 extreme", "input unmodified", "rate", "conditional rate (independence)", "Z: 0 never becomes 1", "BEC: unerased unchanged"]
JOBS = {"quick": 6, "thorough": 16}
TIMEOUT = {"quick": 900, "thorough": 3600}
PROBS = [0.0, 1e-3, 0.01, 0.1, 0.3, 0.5, 0.9, 0.999, 1.0]


def units(tier, seed):
    out = []
    for ch in ("bsc", "z", "bec"):
        for p in PROBS:
            for fmt in ("binary", "bipolar"):
                out.append({"unit": f"{ch}:p={p}:{fmt}", "kind": "stat", "channel": ch, "p": p, "fmt": fmt, "cost": 3})
        out.append({"unit": f"{ch}:dtypes-shapes", "kind": "exact", "channel": ch, "cost": 2})
        out.append({"unit": f"{ch}:many-short-calls", "kind": "short", "channel": ch, "cost": 4})
        out.append({"unit": f"{ch}:one-object-many-forms", "kind": "reuse", "channel": ch, "cost": 2})
    return out


def make(ch, p, **kw):
    from kaira.channels import BinaryErasureChannel, BinarySymmetricChannel, BinaryZChannel

    if ch == "bsc":
        return BinarySymmetricChannel(p)
    if ch == "z":
        return BinaryZChannel(p)
    return BinaryErasureChannel(p, **kw)


def seed_for(*parts):
    return int(hashlib.blake2b(repr(parts).encode(), digest_size=6).hexdigest(), 16)


def run_unit(ctx, u):
    import torch

    ch = u["channel"]
    q = ctx.tier == "quick"

    def mutation_guard(x):
        return x.clone(), x._version

    if u["kind"] == "exact":
        gen = torch.Generator().manual_seed(seed_for("c12x", ctx.seed, ch))
        for p in PROBS:
            for fmt in ("binary", "bipolar"):
                for dt in (torch.float32, torch.float64, torch.int64, torch.bool):
                    if dt == torch.bool and fmt == "bipolar":
                        continue
                    for shape in ((17,), (4, 33), (2, 3, 5, 7), (1, 1)):
                        bits = torch.randint(0, 2, shape, generator=gen)
                        if fmt == "bipolar":
                            x = (2 * bits - 1)
                            x.view(-1)[0] = -1
                            bits = (x + 1) // 2
                        else:
                            x = bits
                        x = x.to(dt)
                        kw = {"erasure_symbol": 0} if (ch == "bec" and fmt == "bipolar") else {}
                        chan = make(ch, p, **kw)
                        snap, ver = mutation_guard(x)
                        torch.manual_seed(seed_for("c12x", ctx.seed, ch, p, fmt, str(dt), shape))
                        try:
                            y = chan(x)
                        except Exception as e:  # noqa: BLE001
                            ctx.skip(f"{ch} rejects dtype {dt}: {type(e).__name__}")
                            continue
                        cfgc = f"{fmt},{str(dt).replace('torch.', '')}"
                        ctx.case("exact", ch, p, fmt, str(dt), shape, nontrivial=0 < p < 1)
                        ctx.check(bool(torch.equal(x, snap)) and x._version == ver, "input unmodified", f"{ch}|{cfgc}|input unmodified|input tensor changed", p=p, shape=list(shape))
                        ctx.check(tuple(y.shape) == tuple(x.shape), "shape preserved", f"{ch}|{cfgc}|shape preserved|differs", p=p, shape=list(shape), out=list(y.shape))
                        _exact_clauses(ctx, ch, cfgc, p, fmt, x.to(torch.float64), y.to(torch.float64), kw.get("erasure_symbol", -1))
        ctx.sample({"unit": u["unit"], "dtypes": ["float32", "float64", "int64", "bool"], "shapes": [[17], [4, 33], [2, 3, 5, 7], [1, 1]], "probabilities": PROBS})
        return

    if u["kind"] == "reuse":
        # one channel object serves a sequence of calls that alternate alphabet, shape, dtype and batch size: nothing
        # learnt from an earlier call (e.g. which alphabet is in use) may leak into a later one.  Also the erasure
        # channel with unusual erasure symbols (2, 0.5, inf, nan): unerased symbols stay what they were.
        gen = torch.Generator().manual_seed(seed_for("c12reuse", ctx.seed, ch))
        for p in (0.0, 0.3, 1.0):
            for first in ("binary", "bipolar"):
                kw = {"erasure_symbol": 7.0} if ch == "bec" else {}
                chan = make(ch, p, **kw)
                order = [first, "bipolar" if first == "binary" else "binary", first, first]
                for step, fmt in enumerate(order * 2):
                    shape = [(9,), (3, 11), (2, 2, 5), (1, 4)][step % 4]
                    bits = torch.randint(0, 2, shape, generator=gen).double()
                    bits.view(-1)[0] = 0.0
                    bits.view(-1)[-1] = 1.0
                    x = (2 * bits - 1 if fmt == "bipolar" else bits).to([torch.float32, torch.float64][step % 2])
                    torch.manual_seed(seed_for("c12reuse", ctx.seed, ch, p, first, step))
                    y = chan(x)
                    ctx.case("reuse", ch, p, first, step)
                    _exact_clauses(ctx, ch, f"{fmt},one object across alphabets", p, fmt, x.double(), y.double(), 7.0)
        if ch == "bec":
            for es in (2.0, 0.5, float("inf"), float("nan")):
                for p in (0.0, 0.4, 1.0):
                    chan = make(ch, p, erasure_symbol=es)
                    x = torch.randint(0, 2, (6, 40), generator=gen).float()
                    torch.manual_seed(seed_for("c12es", ctx.seed, str(es), p))
                    y = chan(x).double()
                    erased = torch.isnan(y) if es != es else (y == es)
                    ctx.case("erasure-symbol", str(es), p)
                    ok = bool((y[~erased] == x.double()[~erased]).all()) and (p > 0 or not bool(erased.any())) and (p < 1 or bool(erased.all()))
                    ctx.check(ok, "BEC: unerased unchanged", "bec|binary,unusual erasure symbol|BEC: unerased unchanged|changed", p=p, erasure_symbol=str(es), y=y.flatten()[:8], x=x.flatten()[:8])
        ctx.sample({"unit": u["unit"], "sequence": "alphabets alternate, shapes (9),(3,11),(2,2,5),(1,4), float32/float64", "probabilities": [0.0, 0.3, 1.0]})
        return

    if u["kind"] == "short":
        # many short calls with a small event probability: the per-symbol law must hold call by call - the total
        # number of events ~ Bin(M*n, p) and the number of calls without any event ~ Bin(M, (1-p)^n), both exact
        M = 3000 if q else 20000
        tests = []
        for p in (1e-3, 0.01, 0.04, 0.3):
            for n in (32, 50, 200):
                for fmt in ("binary", "bipolar"):
                    es = 0 if fmt == "bipolar" else -1
                    chan = make(ch, p, **({"erasure_symbol": es} if ch == "bec" else {}))
                    torch.manual_seed(seed_for("c12short", ctx.seed, ch, p, n, fmt))
                    total = zero_calls = 0
                    for _ in range(M):
                        # Z acts on ones only: all-ones words keep the number of eligible symbols equal to n;
                        # bipolar words carry one -1 (how the format is recognised), which is not counted
                        if ch == "z":
                            bits = torch.ones(n + 1)
                        else:
                            bits = (torch.rand(n + 1) < 0.5).float()
                        bits[0] = 0.0
                        x = 2 * bits - 1 if fmt == "bipolar" else bits
                        y = chan(x)
                        if ch == "bec":
                            ev = (y == es)[1:]
                        else:
                            ev = (((y + 1) / 2 if fmt == "bipolar" else y) != bits)[1:]
                        c = int(ev.sum())
                        total += c
                        zero_calls += c == 0
                    ctx.case("short", ch, p, n, fmt)
                    for name, k, nn, pp in (("total events over all calls", total, M * n, p), ("calls without any event", zero_calls, M, (1 - p) ** n)):
                        lo, hi = stats.binom_count_interval(nn, pp, ALPHA)
                        ok = lo <= k <= hi
                        tests.append({"test": name, "p": p, "n": n, "fmt": fmt, "k": int(k), "of": nn, "interval": [lo, hi], "ok": ok})
                        ctx.note_add("statistical_tests_run")
                        ctx.check(ok, "rate", f"{ch}|{fmt},0<p<1|rate|many short calls: {name} outside exact Binomial interval", p=p, symbols_per_call=n, calls=M, k=int(k), of=nn, interval=[lo, hi], seed=ctx.seed)
        ctx.sample({"unit": u["unit"], "calls": M, "lengths": [32, 50, 200], "probabilities": [1e-3, 0.01, 0.04, 0.3], "tests": tests[:6]})
        return

    # ------------------------------------------------------------------ statistical unit
    p, fmt = u["p"], u["fmt"]
    N = 1_000_000 if q else 4_000_000
    B, L = 1000, N // 1000
    torch.manual_seed(seed_for("c12s", ctx.seed, ch, p, fmt))
    bits = (torch.rand(B, L) < 0.5).float()
    x = 2 * bits - 1 if fmt == "bipolar" else bits.clone()
    if fmt == "bipolar":
        x[0, 0] = -1.0
        bits[0, 0] = 0.0
    es = 0 if fmt == "bipolar" else -1
    chan = make(ch, p, **({"erasure_symbol": es} if ch == "bec" else {}))
    snap, ver = mutation_guard(x)
    y = chan(x)
    cfgc = f"{fmt},float32"
    pcl = "p=0" if p == 0 else ("p=1" if p == 1 else "0<p<1")
    ctx.case("stat", ch, p, fmt, nontrivial=0 < p < 1)
    ctx.check(bool(torch.equal(x, snap)) and x._version == ver, "input unmodified", f"{ch}|{cfgc}|input unmodified|input tensor changed", p=p)
    _exact_clauses(ctx, ch, cfgc, p, fmt, x.double(), y.double(), es)
    # events
    if ch == "bec":
        ev = y == es
        eligible = torch.ones_like(ev)
    else:
        ybits = (y + 1) / 2 if fmt == "bipolar" else y
        ev = ybits != bits
        eligible = torch.ones_like(ev) if ch == "bsc" else (bits == 1)
    tests = []

    def binom_test(name, k, n, keysym):
        lo, hi = stats.binom_count_interval(n, p, ALPHA)
        ok = lo <= k <= hi
        tests.append({"test": name, "k": int(k), "n": int(n), "p": p, "interval": [lo, hi], "ok": ok})
        ctx.note_add("statistical_tests_run")
        ctx.check(ok, "rate" if name.startswith("rate") else "conditional rate (independence)", f"{ch}|{fmt},{pcl}|{'rate' if name.startswith('rate') else 'conditional rate (independence)'}|{keysym}", test=name, k=int(k), n=int(n), p=p, interval=[lo, hi], seed=ctx.seed)

    e = ev & eligible
    binom_test("rate", int(e.sum()), int(eligible.sum()), "outside exact Binomial interval")
    if ch in ("bsc", "bec"):
        for sym in (0, 1):
            m = bits == sym
            binom_test(f"rate|input={sym}", int((ev & m).sum()), int(m.sum()), f"outside exact Binomial interval (input symbol {sym})")
    # conditional on the neighbour's event
    for name, a, b_ in (
        ("lag1", (slice(None), slice(1, None)), (slice(None), slice(None, -1))),
        ("lag2", (slice(None), slice(2, None)), (slice(None), slice(None, -2))),
        ("batch-lag1", (slice(1, None), slice(None)), (slice(None, -1), slice(None))),
    ):
        cond = e[b_] & eligible[a]
        k = int((e[a] & cond).sum())
        n = int(cond.sum())
        if n == 0:
            ctx.skip("no conditioning events")
            continue
        binom_test(f"cond|{name}", k, n, f"dependence at {name}")
    if ctx.notes.get("_sampled", 0) < 3 and 0 < p < 1:
        ctx.notes["_sampled"] = ctx.notes.get("_sampled", 0) + 1
        ctx.sample({"unit": u["unit"], "N": N, "alpha_per_test": ALPHA, "tests": tests})


def _exact_clauses(ctx, ch, cfgc, p, fmt, x, y, es):
    import torch

    lo_sym = -1.0 if fmt == "bipolar" else 0.0
    allowed = {lo_sym, 1.0} | ({float(es)} if ch == "bec" else set())
    vals = set(torch.unique(y).tolist())
    ctx.check(vals <= allowed, "support", f"{ch}|{cfgc}|support|output outside alphabet", p=p, values=sorted(vals)[:6], allowed=sorted(allowed))
    if p == 0:
        ctx.check(bool(torch.equal(y, x)), "p=0 identity", f"{ch}|{cfgc}|p=0 identity|output differs from input", p=p)
    if p == 1:
        if ch == "bsc":
            exp = (lo_sym + 1.0) - x  # complement within the alphabet
        elif ch == "z":
            exp = torch.full_like(x, lo_sym)
        else:
            exp = torch.full_like(x, float(es))
        ctx.check(bool(torch.equal(y, exp)), "p=1 extreme", f"{ch}|{cfgc}|p=1 extreme|not the deterministic extreme", p=p, y=y.flatten()[:8], expected=exp.flatten()[:8])
    if ch == "z":
        zero_in = x == lo_sym
        ctx.check(bool((y[zero_in] == lo_sym).all()), "Z: 0 never becomes 1", f"{ch}|{cfgc}|Z: 0 never becomes 1|a 0 was raised", p=p)
    if ch == "bec":
        kept = y != es
        if fmt == "binary" or es != -1:
            ctx.check(bool((y[kept] == x[kept]).all()), "BEC: unerased unchanged", f"{ch}|{cfgc}|BEC: unerased unchanged|changed", p=p)
