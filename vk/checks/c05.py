"""C05 - noise-free modulation followed by hard demodulation returns the transmitted bits."""
from __future__ import annotations

import itertools
import random

from vk.workloads import modems

PROPERTY = "C05"
RULE = (
    "every scheme/order/labelling/normalisation option, built directly and through ModulationRegistry.create; inputs: every single bit group (all 2^b symbols), every ordered "
    "pair (and triple for b<=2) of symbols for schemes with memory, all groups concatenated, seeded random sequences, short 1-D sequences of 1..4 symbols; layouts 1-D and (B,L) "
    "with B in {1,3}; each call in eval mode on freshly reset state. Distinct = (scheme configuration, layout, bit sequence); non-trivial = sequence contains a 1."
    " Added after the seeded-fault rounds: round trip after training-mode use + reset; DPSK through the gray_coded= alias and bits_per_symbol=; bit tensors as float64/int64/int32/int8/uint8/bool must give the same symbols; variants of one scheme/order share a child process."
    " Round 5: modem form axis (deep copy of a used pair, .double().float(), state_dict twin) for one representative per (scheme, order)."
)
ASSUMPTIONS = [
    "expected bits: memoryless = input; DPSK family = input minus the first symbol's group; OQPSK = in-phase bit of symbol i, quadrature bit of symbol i-1 (first quadrature output unconstrained); pi/4-QPSK = input",
    "comparison on bit values after rounding, dtype-agnostic; training-mode state carry-over is not judged",
]
REQUIRED = ["roundtrip bits", "symbol count", "eval-mode state does not carry over", "roundtrip after training-mode use + reset", "symbols independent of the bit dtype"]
JOBS = {"quick": 4, "thorough": 16}
TIMEOUT = {"quick": 900, "thorough": 3600}


def units(tier, seed):
    out = []
    for s in modems.catalogue(tier):
        cost = 1 + (s.get("order", 4) / 32 if s["scheme"] in ("qam", "pam", "psk") else 0)
        # all option variants of one scheme and order run one after the other in one process
        out.append({"unit": f"{modems.cfg(s)}", "spec": s, "cost": cost, "group": f"{s['scheme']}:{s.get('order', 0)}"})
    return out


def expected_bits(s, bits_rows):
    """bits_rows: list of rows (each a list of bits). -> list of expected rows, mask rows (1 = judged)."""
    sc = s["scheme"]
    b = modems.bits_per_symbol(s)
    exp, mask = [], []
    for row in bits_rows:
        if sc in ("dpsk", "dbpsk", "dqpsk"):
            e = row[b:]
            exp.append(e)
            mask.append([1] * len(e))
        elif sc == "oqpsk":
            n = len(row) // 2
            e, m = [], []
            for i in range(n):
                e.append(row[2 * i])
                m.append(1)
                if i == 0:
                    e.append(0)
                    m.append(0)
                else:
                    e.append(row[2 * (i - 1) + 1])
                    m.append(1)
            exp.append(e)
            mask.append(m)
        else:
            exp.append(list(row))
            mask.append([1] * len(row))
    return exp, mask


def run_unit(ctx, u):
    import torch

    s = u["spec"]
    q = ctx.tier == "quick"
    rng = random.Random(f"c05-{ctx.seed}-{s['id']}")
    kc = modems.cfg_class(s)
    b = modems.bits_per_symbol(s)
    try:
        mod, dem = modems.build(s)
    except Exception as e:  # noqa: BLE001
        ctx.violation(f"{kc}|build|constructible|raised:{type(e).__name__}", spec=s, error=str(e)[:300])
        return
    ctx.check(int(mod.bits_per_symbol) == b and int(dem.bits_per_symbol) == b, "bits_per_symbol", f"{kc}|-|bits_per_symbol|wrong", spec=s, mod=int(mod.bits_per_symbol), dem=int(dem.bits_per_symbol))
    groups = modems.all_groups(b)
    memory = s["scheme"] in modems.MEMORY
    min_syms = 2 if s["scheme"] in ("dpsk", "dbpsk", "dqpsk") else 1

    seqs = []  # (layout tag, rows)
    if not memory:
        for g in groups if len(groups) <= 64 else rng.sample(groups, 64):
            seqs.append(("(B,L)", [g]))
            seqs.append(("1-D,short", [g]))
    else:
        tuples = list(itertools.product(groups, repeat=2))
        if b <= 2:
            tuples += list(itertools.product(groups, repeat=3))
        if len(tuples) > 300:
            tuples = rng.sample(tuples, 300)
        for t in tuples:
            row = [bit for g in t for bit in g]
            seqs.append(("(B,L)", [row]))
            seqs.append(("1-D,short", [row]))
    allg = [bit for g in groups for bit in g]
    seqs.append(("1-D", [allg + allg[::-1] if len(allg) % b == 0 else allg]))
    seqs.append(("(B,L)", [allg, allg[::-1] if True else allg, allg]))
    L = 64 if q else 1024
    if s.get("order", 0) >= 64:
        L = 32 if q else 256
    for _ in range(2 if q else 6):
        seqs.append(("1-D", [[rng.getrandbits(1) for _ in range(L * b)]]))
        seqs.append(("(B,L)", [[rng.getrandbits(1) for _ in range(L * b)] for _ in range(3)]))
        seqs.append(("(B,L)", [[rng.getrandbits(1) for _ in range(L * b)]]))
    for ns in (1, 2, 3, 4):
        if ns < min_syms:
            continue
        for _ in range(3):
            seqs.append(("1-D,short", [[rng.getrandbits(1) for _ in range(ns * b)]]))
    seqs.append(("(B,L)", [[0] * (4 * b), [1] * (4 * b)]))

    for tag, rows in seqs:
        nsym = len(rows[0]) // b
        if nsym < min_syms:
            continue
        one_d = tag.startswith("1-D")
        x = torch.tensor(rows[0] if one_d else rows, dtype=torch.float32)
        ltag = tag if tag != "1-D" else "1-D"
        ctx.case(modems.cfg(s), tag, tuple(map(tuple, rows)) if len(rows[0]) <= 64 else hash(tuple(map(tuple, rows))), nontrivial=any(any(r) for r in rows))
        modems.fresh(mod, dem)
        try:
            y = mod(x)
        except Exception as e:  # noqa: BLE001
            ctx.violation(f"{kc}|{ltag}|roundtrip bits|modulator raised:{type(e).__name__}", spec=s, bits=rows[0][:32], error=str(e)[:200])
            continue
        exp_sym_shape = (nsym,) if one_d else (len(rows), nsym)
        if not ctx.check(tuple(y.shape) == exp_sym_shape, "symbol count", f"{kc}|{ltag}|symbol count|wrong", spec=s, bits_shape=list(x.shape), symbols_shape=list(y.shape), expected=list(exp_sym_shape)):
            continue
        try:
            out = dem(y)
        except Exception as e:  # noqa: BLE001
            ctx.violation(f"{kc}|{ltag}|roundtrip bits|demodulator raised:{type(e).__name__}", spec=s, bits=rows[0][:32], error=str(e)[:200])
            continue
        exp, mask = expected_bits(s, rows)
        e_t = torch.tensor(exp[0] if one_d else exp, dtype=torch.float64)
        m_t = torch.tensor(mask[0] if one_d else mask, dtype=torch.bool)
        if tuple(out.shape) != tuple(e_t.shape):
            ctx.violation(f"{kc}|{ltag}|roundtrip bits|wrong output length", spec=s, bits=rows[0][:32], out_shape=list(out.shape), expected_shape=list(e_t.shape), out_head=out.flatten()[:16])
            continue
        got = out.to(torch.float64).round()
        same = bool(((got == e_t) | ~m_t).all())
        if same:
            ctx.ok("roundtrip bits", int(m_t.sum()))
        else:
            ctx.violation(f"{kc}|{ltag}|roundtrip bits|wrong bits", spec=s, bits=rows[0][:32], demodulated=got.flatten()[:32], expected=e_t.flatten()[:32])

    # dirty history: the objects are first used in *training* mode (where schemes with memory do carry state,
    # with odd and even symbol counts), then reset and switched to evaluation mode: the round trip must hold again
    for ns_dirty in (1, 2, 3, 5):
        if ns_dirty < min_syms:
            continue
        try:
            mod.train()
            dem.train()
            yd = mod(torch.tensor([[rng.getrandbits(1) for _ in range(ns_dirty * b)]], dtype=torch.float32))
            dem(yd)
            if ns_dirty == 3:
                dem(yd[..., : max(min_syms, 1)])  # a second, shorter burst
        except Exception:  # noqa: BLE001 - training-mode behaviour itself is not judged
            pass
        modems.fresh(mod, dem)
        row = [rng.getrandbits(1) for _ in range(5 * b)]
        x = torch.tensor([row], dtype=torch.float32)
        ctx.case(modems.cfg(s), "dirty", ns_dirty, tuple(row))
        try:
            out = dem(mod(x))
            exp, mask = expected_bits(s, [row])
            e_t = torch.tensor(exp, dtype=torch.float64)
            m_t = torch.tensor(mask, dtype=torch.bool)
            ok = tuple(out.shape) == tuple(e_t.shape) and bool(((out.to(torch.float64).round() == e_t) | ~m_t).all())
            ctx.check(ok, "roundtrip after training-mode use + reset", f"{kc}|(B,L)|roundtrip after training-mode use + reset|wrong bits", spec=s, dirty_symbols=ns_dirty, bits=row, demodulated=out.flatten()[:20])
        except Exception as e:  # noqa: BLE001
            ctx.violation(f"{kc}|(B,L)|roundtrip after training-mode use + reset|raised:{type(e).__name__}", spec=s, error=str(e)[:200])

    # other dtypes of the same bits (a modulator that accepts them must send the same symbols: unsigned or narrow
    # integer arithmetic must not leak into the mapping)
    row = [rng.getrandbits(1) for _ in range(8 * b)]
    row[0], row[1] = 1, 0
    modems.fresh(mod, dem)
    try:
        y_ref = mod(torch.tensor([row], dtype=torch.float32))
    except Exception:  # noqa: BLE001
        y_ref = None
    if y_ref is not None:
        for dt in (torch.float64, torch.int64, torch.int32, torch.int8, torch.uint8, torch.bool):
            modems.fresh(mod, dem)
            ctx.case(modems.cfg(s), "dtype", str(dt))
            try:
                y = mod(torch.tensor([row], dtype=torch.float32).to(dt))
            except Exception:  # noqa: BLE001
                ctx.skip(f"modulator rejects dtype {str(dt).replace('torch.', '')}")
                continue
            same = tuple(y.shape) == tuple(y_ref.shape) and bool(torch.allclose(y.to(y_ref.dtype) if y.dtype != y_ref.dtype and y.is_complex() == y_ref.is_complex() else y, y_ref, rtol=1e-5, atol=1e-6)) if y.is_complex() == y_ref.is_complex() else False
            ctx.check(same, "symbols independent of the bit dtype", f"{kc}|(B,L)|symbols independent of the bit dtype|{str(dt).replace('torch.', '')} bits give other symbols", spec=s, bits=row[:16], symbols=y.flatten()[:6], expected=y_ref.flatten()[:6])
    # eval-mode: state must not carry over between calls (reset -> call -> call gives equal answers)
    row = [rng.getrandbits(1) for _ in range(6 * b)]
    x = torch.tensor([row], dtype=torch.float32)
    modems.fresh(mod, dem)
    try:
        y1 = mod(x)
        o1 = dem(y1)
        y2 = mod(x)
        o2 = dem(y2)
        ctx.check(bool(torch.equal(y1, y2)) and bool(torch.equal(o1, o2)), "eval-mode state does not carry over", f"{kc}|(B,L)|eval-mode state does not carry over|second call differs", spec=s, bits=row)
    except Exception as e:  # noqa: BLE001
        ctx.violation(f"{kc}|(B,L)|eval-mode state does not carry over|raised:{type(e).__name__}", spec=s, error=str(e)[:200])
    if s["id"] % 12 == 0:
        ctx.sample({"scheme": modems.cfg(s), "bits_per_symbol": b, "sequences": len(seqs), "example_bits": seqs[0][1][0]})
