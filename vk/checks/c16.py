"""C16 - error-rate metrics are exact counts; the streaming form is partition-independent."""
from __future__ import annotations

import itertools
import random
from fractions import Fraction

PROPERTY = "C16"
RULE = (
    "one-shot: seeded random and adversarial binary pairs (all-equal, all-different, a single difference at every position) x shapes (B,L),(B,C,L) x every divisor block size "
    "(non-divisors for rejection) x real/complex forms, against an integer reference counter; histories: every sequence of length<=5 (quick) / <=6 (thorough) over "
    "{update(b1),update(b2),update(b3),compute,reset} with three batches of unequal size (exhaustive) plus seeded random histories up to length 200; every permutation and every "
    "2-/3-way split of a fixed data set. Distinct = (metric, input digest / history); non-trivial = at least one differing bit / >=2 updates with unequal batch sizes."
    " Added after the seeded-fault rounds: batches that exist for one call only (dropped after each call; numpy buffers refilled in place and re-wrapped), four shapes."
)
ASSUMPTIONS = ["inputs are 0/1 valued (BER thresholds at 0.5, BLER compares |x-y|>0)", "comparison with the exact fraction to 1 ulp of float32", "StandardMetrics helpers are compared on divisor block sizes only (they truncate otherwise)"]
REQUIRED = ["ber:one-shot", "bler:one-shot", "symmetric", "ber<=bler<=min(1,B*ber)", "history:compute=reference", "partition independent", "benchmark helpers agree", "reject non-divisor block size"]
JOBS = {"quick": 6, "thorough": 16}
TIMEOUT = {"quick": 900, "thorough": 3600}
EXHAUSTIVE_NOTE = "all update/compute/reset histories up to length 5 (quick) / 6 (thorough) over three unequal batches; single difference at every position"


def units(tier, seed):
    q = tier == "quick"
    out = [{"unit": "oneshot", "kind": "oneshot", "cost": 4}, {"unit": "partition", "kind": "partition", "cost": 3}]
    maxlen = 5 if q else 6
    # exhaustive histories sharded by first two symbols
    for a in range(5):
        for b in range(5):
            out.append({"unit": f"hist-exh-{a}{b}", "kind": "hist_exh", "prefix": [a, b], "maxlen": maxlen, "cost": 2 if q else 10})
    for i in range(4 if q else 16):
        out.append({"unit": f"hist-rand-{i}", "kind": "hist_rand", "count": 150 if q else 1500, "shard": i, "cost": 4 if q else 30})
    out.append({"unit": "hist-ephemeral", "kind": "hist_ephemeral", "count": 400 if q else 4000, "cost": 4})
    return out


def close(val, frac: Fraction) -> bool:
    v = float(val)
    f = float(frac)
    return abs(v - f) <= 1.3e-7 * max(abs(f), 1e-30) + 1e-45


def ref_ber(x, y):
    import torch

    if x.is_complex():
        d = int(((x.real > 0.5) != (y.real > 0.5)).sum()) + int(((x.imag > 0.5) != (y.imag > 0.5)).sum())
        return d, 2 * x.numel()
    return int(((x > 0.5) != (y > 0.5)).sum()), x.numel()


def ref_bler(x, y, block):
    B = x.shape[0]
    xf, yf = x.reshape(B, -1), y.reshape(B, -1)
    per = xf.shape[1]
    bs = per if block is None else block
    nb = per // bs
    diff = (xf != yf).reshape(B, nb, bs).any(dim=-1)
    return int(diff.sum()), B * nb


def run_unit(ctx, u):
    import torch

    from kaira.benchmarks.metrics import StandardMetrics
    from kaira.metrics.signal import BitErrorRate, BlockErrorRate

    kind = u["kind"]
    rng = random.Random(f"c16-{ctx.seed}-{u['unit']}")
    q = ctx.tier == "quick"

    def rbits(*shape):
        return torch.tensor([rng.getrandbits(1) for _ in range(int(torch.tensor(shape).prod()))], dtype=torch.float32).reshape(*shape)

    if kind == "oneshot":
        pairs = []
        for shape in [(1, 8), (4, 12), (3, 2, 6), (5, 1), (2, 3, 4), (7, 24)]:
            x = rbits(*shape)
            pairs.append(("random", x, rbits(*shape)))
            pairs.append(("all-equal", x, x.clone()))
            pairs.append(("all-different", x, 1 - x))
            n = x.numel()
            for pos in range(n):
                y = x.clone().reshape(-1)
                y[pos] = 1 - y[pos]
                pairs.append(("single-diff", x, y.reshape(shape)))
            for _ in range(3 if q else 30):
                p = rng.random() ** 2
                y = torch.where(torch.tensor([rng.random() < p for _ in range(n)]).reshape(shape), 1 - x, x)
                pairs.append(("random-sparse", x, y))
        for tag, x, y in pairs:
            e, t = ref_ber(x, y)
            ctx.case("oneshot", tag, tuple(x.shape), tuple(x.flatten().tolist()), tuple(y.flatten().tolist()), nontrivial=e > 0)
            ber = BitErrorRate()
            v = ber(x, y)
            ctx.check(close(v, Fraction(e, t)), "ber:one-shot", f"BitErrorRate|{tag}|ber:one-shot|differs", x=x, y=y, got=float(v), expected=[e, t])
            ctx.check(float(ber(y, x)) == float(v), "symmetric", f"BitErrorRate|{tag}|symmetric|asymmetric", x=x, y=y)
            ctx.check((float(v) == 0.0) == bool(torch.equal(x, y)), "zero iff equal", f"BitErrorRate|{tag}|zero iff equal|violated", x=x, y=y, got=float(v))
            per = x.reshape(x.shape[0], -1).shape[1]
            for bs in [None] + [d for d in range(1, per + 1) if per % d == 0]:
                eb, tb = ref_bler(x, y, bs)
                m = BlockErrorRate(block_size=bs)
                vb = m(x, y)
                ctx.check(close(vb, Fraction(eb, tb)), "bler:one-shot", f"BlockErrorRate|{tag}|bler:one-shot|differs", x=x, y=y, block_size=bs, got=float(vb), expected=[eb, tb])
                ctx.check(float(m(y, x)) == float(vb), "symmetric", f"BlockErrorRate|{tag}|symmetric|asymmetric", x=x, y=y, block_size=bs)
                ctx.check((float(vb) == 0.0) == bool(torch.equal(x, y)), "zero iff equal", f"BlockErrorRate|{tag}|zero iff equal|violated", x=x, y=y, block_size=bs)
                B_ = per if bs is None else bs
                fb, fv = float(vb), float(v)
                ctx.check(fv <= fb * (1 + 2e-7) and fb <= min(1.0, B_ * fv) * (1 + 2e-7), "ber<=bler<=min(1,B*ber)", f"metrics|{tag}|ber<=bler<=min(1,B*ber)|violated", ber=fv, bler=fb, block=B_)
                # reductions
                vs = BlockErrorRate(block_size=bs, reduction="sum")(x, y)
                vn = BlockErrorRate(block_size=bs, reduction="none")(x, y)
                ctx.check(float(vs) == eb and int(vn.sum()) == eb and vn.numel() == tb, "bler:reductions", f"BlockErrorRate|{tag}|bler:reductions|differs", block_size=bs, s=float(vs), expected=eb)
                # benchmark helpers (1-D interface)
                if x.dim() == 2 and bs is not None:
                    xf, yf = x.reshape(-1), y.reshape(-1)
                    hb = StandardMetrics.block_error_rate(xf, yf, bs)
                    ctx.check(close(hb, Fraction(eb, tb)), "benchmark helpers agree", f"StandardMetrics.block_error_rate|{tag}|benchmark helpers agree|differs", got=hb, expected=[eb, tb], block_size=bs)
            hv = StandardMetrics.bit_error_rate(x, y)
            ctx.check(close(hv, Fraction(e, t)), "benchmark helpers agree", f"StandardMetrics.bit_error_rate|{tag}|benchmark helpers agree|differs", got=hv, expected=[e, t])
            # rejection of non-divisor block sizes
            for bs in range(2, per + 2):
                if per % bs != 0:
                    try:
                        out = BlockErrorRate(block_size=bs)(x, y)
                        ctx.violation(f"BlockErrorRate|{tag}|reject non-divisor block size|answered", shape=list(x.shape), block_size=bs, got=float(out))
                    except Exception:  # noqa: BLE001
                        ctx.ok("reject non-divisor block size")
                    break
        # complex forms
        for _ in range(20 if q else 200):
            shape = (rng.randint(1, 4), rng.randint(1, 9))
            x = torch.complex(rbits(*shape), rbits(*shape))
            y = torch.complex(rbits(*shape), rbits(*shape)) if rng.random() < 0.7 else x.clone()
            e, t = ref_ber(x, y)
            ctx.case("complex", tuple(torch.view_as_real(x).flatten().tolist()), tuple(torch.view_as_real(y).flatten().tolist()), nontrivial=e > 0)
            v = BitErrorRate()(x, y)
            ctx.check(close(v, Fraction(e, t)), "ber:one-shot", "BitErrorRate|complex|ber:one-shot|differs", got=float(v), expected=[e, t])
            m = BitErrorRate()
            m.update(x, y)
            ctx.check(close(m.compute(), Fraction(e, t)), "history:compute=reference", "BitErrorRate|complex|history:compute=reference|differs", got=float(m.compute()), expected=[e, t])
        ctx.sample({"unit": "oneshot", "pairs": len(pairs), "example": {"x": pairs[0][1], "y": pairs[0][2]}})
        return

    # shared batches for histories: unequal sizes
    g = random.Random(f"c16-batches-{ctx.seed}")

    def gb(*shape):
        return torch.tensor([g.getrandbits(1) for _ in range(int(torch.tensor(shape).prod()))], dtype=torch.float32).reshape(*shape)

    batches = [(gb(1, 6), gb(1, 6)), (gb(3, 6), gb(3, 6)), (gb(5, 6), gb(5, 6))]
    batches[1] = (batches[1][0], batches[1][0].clone())  # one error-free batch
    BS = 3

    def run_history(ops, pool, make_metrics):
        """ops: list of ('u', idx) | ('c',) | ('r',).  Returns first mismatch or None."""
        ber, bler = make_metrics()
        eb = tb = ebl = tbl = 0
        n_updates = 0
        for step, op in enumerate(ops):
            if op[0] == "u":
                x, y = pool[op[1]]
                ber.update(x, y)
                bler.update(x, y)
                e, t = ref_ber(x, y)
                eb += e
                tb += t
                e2, t2 = ref_bler(x, y, BS)
                ebl += e2
                tbl += t2
                n_updates += 1
            elif op[0] == "r":
                ber.reset()
                bler.reset()
                eb = tb = ebl = tbl = 0
            else:
                v1, v2 = ber.compute(), bler.compute()
                r1 = Fraction(eb, max(tb, 1))
                r2 = Fraction(ebl, max(tbl, 1))
                if not close(v1, r1):
                    return ("BitErrorRate", step, float(v1), [eb, tb])
                if not close(v2, r2):
                    return ("BlockErrorRate", step, float(v2), [ebl, tbl])
        v1, v2 = ber.compute(), bler.compute()
        if not close(v1, Fraction(eb, max(tb, 1))):
            return ("BitErrorRate", len(ops), float(v1), [eb, tb])
        if not close(v2, Fraction(ebl, max(tbl, 1))):
            return ("BlockErrorRate", len(ops), float(v2), [ebl, tbl])
        return None

    def mk():
        return BitErrorRate(), BlockErrorRate(block_size=BS)

    alphabet = [("u", 0), ("u", 1), ("u", 2), ("c",), ("r",)]
    if kind == "hist_exh":
        pre = [alphabet[i] for i in u["prefix"]]
        count = 0
        for L in range(0, u["maxlen"] - 1):
            for tail in itertools.product(alphabet, repeat=L):
                ops = pre + list(tail)
                count += 1
                ups = [o[1] for o in ops if o[0] == "u"]
                ctx.case("hist", tuple(ops), nontrivial=len(set(ups)) >= 2)
                bad = run_history(ops, batches, mk)
                if bad is None:
                    ctx.ok("history:compute=reference")
                else:
                    ctx.violation(f"{bad[0]}|exhaustive histories|history:compute=reference|differs", history=[list(o) for o in ops], step=bad[1], got=bad[2], expected=bad[3])
        ctx.exhaustive_units += 1
        if u["prefix"] == [0, 2]:
            ctx.sample({"unit": u["unit"], "histories": count, "example": [list(o) for o in pre + [("c",), ("r",), ("u", 1)]]})
        return
    if kind == "hist_rand":
        for i in range(u["count"]):
            pool = [(rbits(b, 6), None) for b in [rng.randint(1, 64) for _ in range(4)]]
            pool = [(x, torch.where(torch.rand_like(x) < rng.random() ** 3, 1 - x, x)) for x, _ in pool]
            L = rng.randint(1, 200)
            ops = [rng.choices([("u", rng.randrange(4)), ("c",), ("r",)], weights=[8, 2, 1])[0] for _ in range(L)]
            ctx.case("histr", u["shard"], i, nontrivial=True)
            bad = run_history(ops, pool, mk)
            if bad is None:
                ctx.ok("history:compute=reference")
            else:
                ctx.violation(f"{bad[0]}|random histories|history:compute=reference|differs", step=bad[1], got=bad[2], expected=bad[3], length=L)
        # a long history crossing 2^24 bits (float32 accumulation would drift here)
        if u["shard"] == 0:
            ber = BitErrorRate()
            x = torch.zeros(1 << 20)
            y = x.clone()
            y[::3] = 1
            tot = err = 0
            for _ in range(20):
                ber.update(x, y)
                tot += x.numel()
                err += int((y != x).sum())
            ctx.check(close(ber.compute(), Fraction(err, tot)), "history:compute=reference", "BitErrorRate|long history (>2^24 bits)|history:compute=reference|differs", got=float(ber.compute()), expected=[err, tot])
        ctx.sample({"unit": u["unit"], "histories": u["count"], "max_length": 200})
        return
    if kind == "hist_ephemeral":
        # batches that exist for one call only: (a) a numpy buffer refilled in place and re-wrapped for every call,
        # (b) batches made inside a helper and dropped on return (the allocator hands the same storage to the next
        # batch) - anything a metric remembers about "the tensor seen last time" by address or version is stale here
        import numpy as np

        def gen_batch(g, shape, p):
            x = torch.randint(0, 2, shape, generator=g).float()
            y = (x + (torch.rand(shape, generator=g) < p).float()) % 2
            return x, y

        def feed_update(metrics, g, shape, p):
            x, y = gen_batch(g, shape, p)
            for m in metrics:
                m.update(x, y)

        def feed_oneshot(metric, g, shape, p):
            x, y = gen_batch(g, shape, p)
            return float(metric(x, y))

        n = u["count"]
        for shape in ((8, 6), (3, 12), (1, 6), (4, 33)):
            bs = BS if shape[1] % BS == 0 else None
            probs = [0.0 if i % 7 == 0 else (0.4 if i % 5 == 0 else 0.05) for i in range(n)]
            # ---- (a) refilled numpy buffers
            ber, bler = BitErrorRate(), BlockErrorRate(block_size=bs)
            ber1, bler1 = BitErrorRate(), BlockErrorRate(block_size=bs)
            bx, by = np.zeros(shape, dtype=np.float32), np.zeros(shape, dtype=np.float32)
            eb = tb = ebl = tbl = 0
            nprng = np.random.default_rng(rng.getrandbits(32))
            for i in range(n):
                bx[...] = nprng.integers(0, 2, shape)
                by[...] = np.where(nprng.random(shape) < probs[i], 1 - bx, bx)
                e, t = int((bx != by).sum()), bx.size
                diff = (bx != by).reshape(shape[0], -1, bs or shape[1]).any(axis=-1)
                e2, t2 = int(diff.sum()), diff.size
                eb, tb, ebl, tbl = eb + e, tb + t, ebl + e2, tbl + t2
                ctx.case("ephemeral-np", shape, i, nontrivial=e > 0)
                v1, v2 = ber1(torch.from_numpy(bx), torch.from_numpy(by)), bler1(torch.from_numpy(bx), torch.from_numpy(by))
                ok = close(v1, Fraction(e, t)) and close(v2, Fraction(e2, t2))
                ctx.check(ok, "ber:one-shot", "metrics|refilled numpy buffer|ber:one-shot|differs", shape=list(shape), call=i, ber=float(v1), bler=float(v2), expected=[[e, t], [e2, t2]])
                ber.update(torch.from_numpy(bx), torch.from_numpy(by))
                bler.update(torch.from_numpy(bx), torch.from_numpy(by))
            ok = close(ber.compute(), Fraction(eb, tb)) and close(bler.compute(), Fraction(ebl, tbl))
            ctx.check(ok, "history:compute=reference", "metrics|refilled numpy buffer|history:compute=reference|differs", shape=list(shape), updates=n, ber=float(ber.compute()), bler=float(bler.compute()), expected=[[eb, tb], [ebl, tbl]])
            # ---- (b) generated in a helper and dropped: reference from a first pass over the same generator stream
            gseed = rng.getrandbits(32)
            g = torch.Generator().manual_seed(gseed)
            refs = []
            eb = tb = ebl = tbl = 0
            for i in range(n):
                x, y = gen_batch(g, shape, probs[i])
                e, t = ref_ber(x, y)
                e2, t2 = ref_bler(x, y, bs)
                refs.append((e, t, e2, t2))
                eb, tb, ebl, tbl = eb + e, tb + t, ebl + e2, tbl + t2
            del x, y
            g = torch.Generator().manual_seed(gseed)
            ber, bler = BitErrorRate(), BlockErrorRate(block_size=bs)
            for i in range(n):
                feed_update((ber, bler), g, shape, probs[i])
            ctx.case("ephemeral-helper", shape, "stream")
            ok = close(ber.compute(), Fraction(eb, tb)) and close(bler.compute(), Fraction(ebl, tbl))
            ctx.check(ok, "history:compute=reference", "metrics|batches dropped after each update|history:compute=reference|differs", shape=list(shape), updates=n, ber=float(ber.compute()), bler=float(bler.compute()), expected=[[eb, tb], [ebl, tbl]])
            for metric, idx, nm in ((BitErrorRate(), 0, "BitErrorRate"), (BlockErrorRate(block_size=bs), 2, "BlockErrorRate")):
                g = torch.Generator().manual_seed(gseed)
                wrong = [(i, v, refs[i][idx : idx + 2]) for i in range(n) for v in [feed_oneshot(metric, g, shape, probs[i])] if not close(v, Fraction(refs[i][idx], refs[i][idx + 1]))]
                ctx.case("ephemeral-helper", shape, nm)
                ctx.check(not wrong, "ber:one-shot" if idx == 0 else "bler:one-shot", f"{nm}|batches dropped after each call|{'ber' if idx == 0 else 'bler'}:one-shot|differs", shape=list(shape), wrong_calls=len(wrong), first=wrong[:2])
        ctx.sample({"unit": u["unit"], "calls_per_shape": n, "shapes": [[8, 6], [3, 12], [1, 6], [4, 33]]})
        return
    if kind == "partition":
        for trial in range(6 if q else 40):
            R = 5 if trial % 2 == 0 else 6
            x = rbits(R, 6)
            y = torch.where(torch.rand_like(x) < 0.15, 1 - x, x)
            e, t = ref_ber(x, y)
            e2, t2 = ref_bler(x, y, BS)
            rows = list(range(R))
            perms = list(itertools.permutations(rows)) if R <= 5 else [tuple(rng.sample(rows, R)) for _ in range(120)]
            for perm in perms:
                cuts = [()] + [(c,) for c in range(1, R)] + [(a, b) for a in range(1, R) for b in range(a + 1, R)]
                for cut in cuts if (perm == tuple(rows) or rng.random() < 0.1) else [rng.choice(cuts)]:
                    parts = []
                    prev = 0
                    for c in list(cut) + [R]:
                        parts.append(list(perm[prev:c]))
                        prev = c
                    ber, bler = mk()
                    for p in parts:
                        ber.update(x[p], y[p])
                        bler.update(x[p], y[p])
                    ctx.case("part", trial, perm, cut, nontrivial=e > 0)
                    ok = close(ber.compute(), Fraction(e, t)) and close(bler.compute(), Fraction(e2, t2))
                    ctx.check(ok, "partition independent", "metrics|row permutation + split|partition independent|differs", perm=list(perm), cut=list(cut), ber=float(ber.compute()), bler=float(bler.compute()), expected=[[e, t], [e2, t2]])
            # one-shot on the whole equals streaming
            ctx.check(close(BitErrorRate()(x, y), Fraction(e, t)), "ber:one-shot", "BitErrorRate|partition data|ber:one-shot|differs")
        ctx.exhaustive_units += 1
        ctx.sample({"unit": "partition", "rows": 5, "permutations": 120, "splits": "all 2-/3-way"})
        return
    raise ValueError(kind)
