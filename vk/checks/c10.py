"""C10 - soft-input decoders are exact where the algorithm is; clean input decodes clean."""
from __future__ import annotations

import contextlib
import io
import itertools
import random

import numpy as np

from vk.oracles import gf2
from vk.workloads import catalogue as cat
from vk.workloads import softdec

PROPERTY = "C10"
RULE = (
    "BP (exact / Taylor arctanh), min-sum (plain, scaled, offset, normalized), Wagner and soft Reed-Muller decoders on LDPC codes from random tree-structured and sparse parity-check "
    "matrices, the bundled 3x6 example, Hamming(7,4) left/right, SPC k=1..10, RM(r,m). Clauses: clean LLRs (1-2c)*A, A in {0.5,1,4,50}, decode to the message with shape (...,k); "
    "Wagner = brute-force soft-ML over all even-weight words; BP soft output on a cycle-free graph = brute-force bitwise posterior LLRs; min-sum on a cycle-free graph = brute-force "
    "max-log marginals, = the one-iteration closed form with the configured scaling/offset, and invariant under positive rescaling. Distinct = (decoder set-up, input vector); "
    "non-trivial = non-zero message / random real vector."
    " Added after the seeded-fault rounds: 16 generated trees and chain trees with interleaved check degrees in both tiers; one decoder object across batch sizes 1, all, 2, 5, 1, all; permuted 3-D views."
    " Round 5: Wagner inputs with ties (an exact 0.0 / -0.0, two equal magnitudes, small integers) judged by 'attains the maximum correlation'; plain call - call with return_soft / return_errors - plain call on one decoder object must answer in the same form with the same message."
)
ASSUMPTIONS = [
    "tree clauses draw inputs with sum|L| <= 7 (exact arctanh; its tanh clamp 0.999 bites at ~7.6) and <= 2 (Taylor variant, an approximation by design)",
    "check degrees >= 2 and every variable in at least one check; cycle-free graphs only for the exactness clauses, graphs with cycles only for the clean-decode clause",
    "Wagner inputs have distinct non-zero magnitudes (unique ML word)",
    "BP-type decoders read the message off weight-1 generator columns: clean-decode set-ups are those where these are exactly the k message positions",
]
REQUIRED = ["clean decode", "wagner:soft-ML", "bp:posterior on tree", "minsum:max-log marginals on tree", "minsum:one-iteration closed form", "minsum:scale invariance"]
JOBS = {"quick": 6, "thorough": 16}
TIMEOUT = {"quick": 900, "thorough": 3600}


def units(tier, seed):
    out = []
    for name in ("bp", "bp_taylor", "minsum", "minsum_normalized", "wagner", "rm_soft"):
        out.append({"unit": f"clean:{name}", "kind": "clean", "decoder": name, "cost": 3})
    out.append({"unit": "wagner-ml", "kind": "wagner", "cost": 3})
    n_tree = 16 if tier == "quick" else 64
    for i in range(n_tree):
        out.append({"unit": f"tree#{i}", "kind": "tree", "idx": i, "cost": 3})
    for j, degs in enumerate(softdec.PATTERN_TREES):
        out.append({"unit": f"chain-tree{degs}", "kind": "tree", "idx": 1000 + j, "H": softdec.chain_tree(degs), "cost": 3})
    return out


def codebook(H, n):
    ns = gf2.nullspace(gf2.rows_from_matrix(H), n)
    cw = gf2.span(ns)
    return np.array([[(int(c) >> j) & 1 for j in range(n)] for c in cw], dtype=np.float64)


def brute_posteriors(C, L):
    """C: (M,n) codebook 0/1; L: (n,) LLRs.  -> (exact posterior LLRs, max-log marginals)."""
    w = -(C * L[None, :]).sum(axis=1)  # log weight of each codeword up to a constant
    post = np.zeros(len(L))
    mx = np.zeros(len(L))
    for i in range(len(L)):
        w0, w1 = w[C[:, i] == 0], w[C[:, i] == 1]
        if len(w0) == 0 or len(w1) == 0:
            post[i] = mx[i] = np.inf if len(w1) == 0 else -np.inf
            continue
        post[i] = np.logaddexp.reduce(w0) - np.logaddexp.reduce(w1)
        mx[i] = w0.max() - w1.max()
    return post, mx


def run_unit(ctx, u):
    import torch

    from kaira.models.fec import decoders as D

    kind = u["kind"]
    rng = random.Random(f"c10-{ctx.seed}-{u['unit']}")
    q = ctx.tier == "quick"

    if kind == "clean":
        name = u["decoder"]
        for st in softdec.setups(name, ctx.tier, rng):
            enc, dec, k, n, label = st["encoder"], st["decoder"], st["k"], st["n"], st["label"]
            msgs = cat.all_messages(k) if k <= (6 if q else 8) else cat.sample_messages(rng, k, 48 if q else 256)
            with contextlib.redirect_stdout(io.StringIO()):
                cw = enc(msgs)
            fam = label.split(",")[0].split("#")[0].split("(")[0]
            for A in (0.5, 1.0, 4.0, 50.0):
                llr = (1 - 2 * cw) * A
                ctx.case("clean", name, label, A, nontrivial=True)
                try:
                    out = dec(llr)
                except Exception as e:  # noqa: BLE001
                    ctx.violation(f"{name}|{fam}|clean decode|raised:{type(e).__name__}", setup=label, A=A, error=str(e)[:300])
                    continue
                if isinstance(out, tuple):
                    out = out[0]
                if tuple(out.shape) != tuple(msgs.shape):
                    ctx.violation(f"{name}|{fam}|clean decode|wrong output shape", setup=label, got=list(out.shape), expected=list(msgs.shape))
                    continue
                bad = (out.double().round() != msgs.double()).any(dim=1)
                if bool(bad.any()):
                    i = int(bad.nonzero()[0])
                    ctx.ok("clean decode", int((~bad).sum()))
                    ctx.violation(f"{name}|{fam}|clean decode|wrong message", setup=label, A=A, message=msgs[i], decoded=out[i], llr=llr[i])
                else:
                    ctx.ok("clean decode", msgs.shape[0])
            # the same decoder object, batch sizes changing from call to call (1, all, 2, 5, 1, all) and a permuted
            # 3-D view: nothing remembered from the previous call's batch may be reused
            dec2 = dec
            llr = (1 - 2 * cw) * 2.0
            M = msgs.shape[0]
            for bs in (1, M, 2, min(5, M), 1, M):
                ctx.case("clean-batch-sizes", name, label, bs)
                try:
                    out = dec2(llr[:bs])
                    out = out[0] if isinstance(out, tuple) else out
                    ok = tuple(out.shape) == (bs, k) and bool((out.double().round() == msgs[:bs].double()).all())
                    ctx.check(ok, "clean decode", f"{name}|{fam}|clean decode|wrong message after a call with another batch size", setup=label, batch=bs)
                except Exception as e:  # noqa: BLE001
                    ctx.violation(f"{name}|{fam}|clean decode|raised:{type(e).__name__} after a call with another batch size", setup=label, batch=bs, error=str(e)[:200])
            # optional keywords are per call: plain call, a call with the option, plain call again -- the two plain calls must
            # answer in the same form (tensor / tuple) with the same, correct message
            for opt in ("return_soft", "return_errors"):
                ctx.case("clean-option-history", name, label, opt)
                try:
                    before = dec2(llr[:3])
                    try:
                        dec2(llr[:3], **{opt: True})
                    except Exception:  # noqa: BLE001 - a decoder may reject an option it does not know
                        ctx.skip(f"option {opt} rejected")
                        continue
                    after = dec2(llr[:3])
                    same_form = type(before) is type(after) and (not isinstance(before, tuple) or len(before) == len(after))
                    b0, a0 = [t[0] if isinstance(t, tuple) else t for t in (before, after)]
                    ok = same_form and tuple(a0.shape) == tuple(b0.shape) and bool(torch.equal(a0, b0)) and bool((a0.double().round() == msgs[:3].double()).all())
                    ctx.check(ok, "clean decode", f"{name}|{fam}|clean decode|plain call answers differently after a call with an option", setup=label, option=opt, before=type(before).__name__, after=type(after).__name__)
                except Exception as e:  # noqa: BLE001
                    ctx.violation(f"{name}|{fam}|clean decode|raised:{type(e).__name__} around a call with an option", setup=label, option=opt, error=str(e)[:200])
            if M >= 4:
                m4 = (M // 2) * 2
                x3 = llr[:m4].reshape(2, m4 // 2, n)
                view = x3.permute(1, 0, 2).contiguous().permute(1, 0, 2)
                ctx.case("clean-permuted-view", name, label)
                try:
                    o_c = dec2(x3)
                    o_v = dec2(view)
                    o_c, o_v = [t[0] if isinstance(t, tuple) else t for t in (o_c, o_v)]
                    ctx.check(bool(torch.equal(o_c, o_v)), "clean decode", f"{name}|{fam}|clean decode|a permuted view of the same values decodes differently", setup=label)
                except Exception:  # noqa: BLE001
                    ctx.skip("3-D input rejected")
        ctx.sample({"unit": u["unit"], "magnitudes": [0.5, 1.0, 4.0, 50.0]})
        return

    if kind == "wagner":
        from kaira.models.fec.encoders import SingleParityCheckCodeEncoder

        for k in range(1, 11):
            enc = SingleParityCheckCodeEncoder(k)
            dec = D.WagnerSoftDecisionDecoder(enc)
            n = k + 1
            words = np.array([w for w in itertools.product([0, 1], repeat=n) if sum(w) % 2 == 0], dtype=np.float64)
            N = 300 if q else 5000
            ys = []
            while len(ys) < N:
                y = np.array([rng.gauss(0, 1) * rng.choice([0.1, 1, 5]) for _ in range(n)])
                a = np.abs(y)
                if a.min() > 1e-6 and len(set(np.round(a, 9))) == n:
                    ys.append(y)
            Y = np.array(ys)
            corr = (1 - 2 * words) @ Y.T  # (W, N)
            best = words[corr.argmax(axis=0)]  # (N, n)
            yt = torch.tensor(Y, dtype=torch.float32)
            for layout in ("(B,n)", "1-D"):
                try:
                    out = dec(yt) if layout == "(B,n)" else torch.stack([dec(yt[i]) for i in range(min(N, 40))])
                except Exception as e:  # noqa: BLE001
                    ctx.violation(f"wagner|spc,{layout}|wagner:soft-ML|raised:{type(e).__name__}", k=k, error=str(e)[:200])
                    continue
                M = out.shape[0]
                if tuple(out.shape) != (M, k):
                    ctx.violation(f"wagner|spc,{layout}|wagner:soft-ML|wrong output shape", k=k, got=list(out.shape))
                    continue
                exp = torch.tensor(best[:M, :k])
                bad = (out.double() != exp).any(dim=1)
                for i in range(min(M, 50)):
                    ctx.case("wagner", k, layout, tuple(np.round(Y[i], 6)))
                if bool(bad.any()):
                    i = int(bad.nonzero()[0])
                    ctx.ok("wagner:soft-ML", int((~bad).sum()))
                    ctx.violation(f"wagner|spc,{layout}|wagner:soft-ML|not the maximum-correlation even-weight word", k=k, y=Y[i].tolist(), decoded=out[i], expected=exp[i])
                else:
                    ctx.ok("wagner:soft-ML", M)
            # inputs with ties: an exact 0.0 in one (or every) position, equal magnitudes in two positions. The ML word is
            # not unique there, so the oracle is "the returned word attains the maximum correlation"
            ties = []
            for j in range(120 if q else 1500):
                y = np.array([rng.gauss(0, 1) * rng.choice([0.1, 1, 5]) for _ in range(n)])
                mode = j % 4
                if mode in (0, 1):
                    y[rng.randrange(n)] = 0.0
                if mode == 1:
                    y[rng.randrange(n)] = -0.0
                if mode == 2 and n >= 2:
                    a_, b_ = rng.sample(range(n), 2)
                    y[b_] = -y[a_] if rng.random() < 0.5 else y[a_]
                if mode == 3:
                    y = np.round(y)  # small integers: many zeros and repeated magnitudes
                ties.append(y)
            T = np.array(ties, dtype=np.float32).astype(np.float64)
            tmax = ((1 - 2 * words) @ T.T).max(axis=0)
            try:
                outt = dec(torch.tensor(T, dtype=torch.float32))
                if tuple(outt.shape) != (len(ties), k):
                    ctx.violation("wagner|spc,ties|wagner:soft-ML|wrong output shape", k=k, got=list(outt.shape))
                else:
                    msg = outt.double().numpy()
                    cw = np.concatenate([msg, msg.sum(axis=1, keepdims=True) % 2], axis=1)
                    got = ((1 - 2 * cw) * T).sum(axis=1)
                    badt = np.nonzero((got < tmax - 1e-6) | ~np.isin(msg, (0.0, 1.0)).all(axis=1))[0]
                    ctx.case("wagner-ties", k, float(T.sum()))
                    ctx.ok("wagner:soft-ML", len(ties) - len(badt))
                    if len(badt):
                        i = int(badt[0])
                        ctx.violation("wagner|spc,ties (zero or equal magnitudes)|wagner:soft-ML|not a maximum-correlation even-weight word", k=k, y=T[i].tolist(), decoded=msg[i].tolist(), correlation=float(got[i]), maximum=float(tmax[i]))
            except Exception as e:  # noqa: BLE001
                ctx.violation(f"wagner|spc,ties|wagner:soft-ML|raised:{type(e).__name__}", k=k, error=str(e)[:200])
            # return_errors: flipped positions are consistent with the decoded word
            try:
                d2, e2 = dec(yt[:20], return_errors=True)
                hard = (yt[:20] < 0).int()
                ok = bool(((hard[:, :k] ^ e2[:, :k].int()) == d2.int()).all()) and bool((e2.sum(dim=1) <= 1).all())
                ctx.check(ok, "wagner:return_errors consistent", "wagner|spc|wagner:return_errors consistent|inconsistent", k=k)
            except Exception as e:  # noqa: BLE001
                ctx.violation(f"wagner|spc|wagner:return_errors consistent|raised:{type(e).__name__}", k=k, error=str(e)[:200])
        ctx.exhaustive_units += 1
        ctx.sample({"unit": "wagner-ml", "k": list(range(1, 11)), "vectors_per_k": 300 if q else 5000})
        return

    if kind == "tree":
        trng = random.Random(f"c10-tree-{ctx.seed}-{u['idx']}")
        Hs = [u["H"]] if "H" in u else softdec.tree_codes(trng, ctx.tier, 1)
        if not Hs:
            ctx.skip("no tree generated")
            return
        H = Hs[0]
        n = len(H[0])
        enc = softdec.ldpc_encoder(H)
        C = codebook(H, n)
        deg2 = min(sum(r) for r in H) == 2
        tag = "tree" + (",has degree-2 check" if deg2 else "")
        nvec = 12 if q else 60

        def draw(budget):
            v = np.array([trng.gauss(0, 1) for _ in range(n)])
            v = v / np.abs(v).sum() * budget * trng.uniform(0.3, 1.0)
            return v

        # ---------------- BP exact posterior (exact arctanh), Taylor within its range
        for variant, budget, tol in (("bp", 7.0, 1e-3), ("bp_taylor", 2.0, 1e-3)):
            dec = D.BeliefPropagationDecoder(enc, bp_iters=max(20, n), arctanh=(variant == "bp"))
            L = np.array([draw(budget) for _ in range(nvec)])
            try:
                res = dec(torch.tensor(L, dtype=torch.float32), return_soft=True)
                soft = res[1].double().numpy().reshape(nvec, n)
            except Exception as e:  # noqa: BLE001
                ctx.violation(f"{variant}|{tag}|bp:posterior on tree|raised:{type(e).__name__}", H=H, error=str(e)[:300])
                continue
            for i in range(nvec):
                post, _ = brute_posteriors(C, L[i])
                ctx.case("tree", variant, u["idx"], tuple(np.round(L[i], 6)))
                err = float(np.abs(soft[i] - post).max())
                ctx.check(err <= tol, "bp:posterior on tree", f"{variant}|{tag}|bp:posterior on tree|differs from brute-force marginals", H=H, llr=L[i].tolist(), got=soft[i].tolist(), expected=post.tolist(), max_abs_err=err)
        # ---------------- min-sum: max-log marginals, closed form, scale invariance
        L = np.array([draw(7.0) for _ in range(nvec)])
        Lt = torch.tensor(L, dtype=torch.float32)
        try:
            dec = D.MinSumLDPCDecoder(enc, bp_iters=max(20, n))
            soft = dec(Lt, return_soft=True)[1].double().numpy().reshape(nvec, n)
            for i in range(nvec):
                _, mx = brute_posteriors(C, L[i])
                ctx.case("tree", "minsum", u["idx"], tuple(np.round(L[i], 6)))
                err = float(np.abs(soft[i] - mx).max())
                ctx.check(err <= 1e-4, "minsum:max-log marginals on tree", f"minsum|{tag}|minsum:max-log marginals on tree|differs from brute-force max-log marginals", H=H, llr=L[i].tolist(), got=soft[i].tolist(), expected=mx.tolist(), max_abs_err=err)
            for a in (0.1, 7.0):
                r2 = dec(Lt * a, return_soft=True)
                s2 = r2[1].double().numpy().reshape(nvec, n)
                h1 = dec(Lt)
                ok = np.allclose(s2, a * soft, rtol=1e-4, atol=1e-5) and bool(torch.equal(r2[0], h1))
                ctx.check(ok, "minsum:scale invariance", f"minsum|{tag}|minsum:scale invariance|soft(a*L) != a*soft(L)", H=H, a=a)
        except Exception as e:  # noqa: BLE001
            ctx.violation(f"minsum|{tag}|minsum:max-log marginals on tree|raised:{type(e).__name__}", H=H, error=str(e)[:300])
        for alpha, beta in ((1.0, 0.0), (0.8, 0.0), (1.0, 0.05), (0.75, 0.2)):
            try:
                dec1 = D.MinSumLDPCDecoder(enc, bp_iters=1, scaling_factor=alpha, offset=beta)
                s1 = dec1(Lt, return_soft=True)[1].double().numpy().reshape(nvec, n)
            except Exception as e:  # noqa: BLE001
                ctx.violation(f"minsum|{tag},scaling/offset|minsum:one-iteration closed form|raised:{type(e).__name__}", H=H, alpha=alpha, beta=beta, error=str(e)[:300])
                continue
            for i in range(nvec):
                exp = L[i].copy()
                usable = True
                for row in H:
                    idx = [j for j in range(n) if row[j]]
                    for j in idx:
                        others = [t for t in idx if t != j]
                        mag = min(abs(L[i][t]) for t in others) * alpha
                        if beta and mag <= beta * 1.01:
                            usable = False  # below the offset the floor convention is not part of the property
                        sgn = np.prod([np.sign(L[i][t]) for t in others])
                        exp[j] += sgn * max(mag - beta, 0.0)
                if not usable:
                    ctx.skip("minimum below the offset")
                    continue
                err = float(np.abs(s1[i] - exp).max())
                cfgk = "plain" if (alpha, beta) == (1.0, 0.0) else ("scaled" if beta == 0 else "offset")
                ctx.check(err <= 1e-4, "minsum:one-iteration closed form", f"minsum|{tag},{cfgk}|minsum:one-iteration closed form|differs", H=H, alpha=alpha, beta=beta, llr=L[i].tolist(), got=s1[i].tolist(), expected=exp.tolist())
        if u["idx"] < 3:
            ctx.sample({"unit": u["unit"], "H": H, "n": n, "codewords": int(len(C)), "vectors": nvec})
        return
    raise ValueError(kind)
