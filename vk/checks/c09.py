"""C09 - a coded, modulated link over an ideal or bounded-error channel returns the data."""
from __future__ import annotations

import contextlib
import io
import itertools
import math
import random

import numpy as np

from vk.oracles import gf2, refmod
from vk.workloads import catalogue as cat
from vk.workloads import modems

PROPERTY = "C09"
RULE = (
    "chains built with ChannelCodeModel(encoder, IdentityConstraint, modulator, channel, demodulator, decoder) for every (code, decoder) x (modulator, demodulator) pairing whose "
    "interfaces match (code length a multiple of the bits per symbol; hard bits -> hard-decision decoders, LLRs via noise_var forwarded by the pipeline -> soft-input decoders). "
    "Channels: PerfectChannel; a harness LambdaChannel that flips <=t coded bits per block (every single position and every pair for n<=15, seeded patterns of each weight otherwise); "
    "a harness LambdaChannel displacing every symbol by 0.5 and 0.98 of d_min/2 in a random direction. Oracle: exact equality with the transmitted message. Messages exhaustive for "
    "k<=8, seeded otherwise; batch sizes 1 and 4. Distinct = (chain, channel fault, message batch); non-trivial = non-zero message or a non-empty fault."
    " Added after the seeded-fault rounds: BCH(15,5)+BM chains with all triple flips, sibling codes of equal class and shape in one process, message bits as int64/uint8/float64."
    " Round 5: chains over codes with ascending and permuted index-list information sets (Hamming, cyclic, systematic, Golay) with syndrome and brute-force decoders; un-normalised constellations of every (scheme, order, labelling) in the quick tier too."
)
ASSUMPTIONS = [
    "t = floor((d-1)/2) with d the reference's true distance of the code actually produced; d_min from the effective constellation (driving the real modulator)",
    "DPSK-type schemes get a harness preamble symbol (a thin wrapper around the real modulator) for their differential reference; they are excluded from the displacement clause because the property's d_min/2 bound is per symbol, not per differential product; OQPSK (one-symbol Q delay) is covered by C05/C06/C15 only",
    "pairings need n divisible by bits-per-symbol because several decoders only accept one block per row (layout behaviour is C20's)",
]
REQUIRED = ["link:perfect channel", "link:<=t bit flips per block", "link:symbol displacement < d_min/2", "stage order"]
JOBS = {"quick": 8, "thorough": 16}
TIMEOUT = {"quick": 1200, "thorough": 5400}


def code_pairings(tier):
    """(label, encoder spec, decoder name, soft?)"""
    q = tier == "quick"
    out = [
        ("hamming(7,4)", {"family": "hamming", "mu": 3, "extended": False, "info": "left", "info_kind": "left"}, "syndrome", False),
        ("hamming(7,4)", {"family": "hamming", "mu": 3, "extended": False, "info": "right", "info_kind": "right"}, "bruteforce", False),
        ("hamming(8,4)", {"family": "hamming", "mu": 3, "extended": True, "info": "left", "info_kind": "left"}, "syndrome", False),
        ("bch(15,7),left", {"family": "bch", "mu": 4, "delta": 5, "info": "left", "info_kind": "left"}, "bm", False),
        ("bch(15,7),right", {"family": "bch", "mu": 4, "delta": 5, "info": "right", "info_kind": "right"}, "bm", False),
        ("bch(15,5)", {"family": "bch", "mu": 4, "delta": 7, "info": "left", "info_kind": "left"}, "syndrome", False),
        ("bch(15,5)", {"family": "bch", "mu": 4, "delta": 7, "info": "left", "info_kind": "left"}, "bm", False),
        ("bch(15,5),right", {"family": "bch", "mu": 4, "delta": 7, "info": "right", "info_kind": "right"}, "bm", False),
        ("golay(24,12)", {"family": "golay", "extended": True, "info": "left", "info_kind": "left"}, "syndrome", False),
        ("golay(23,12)", {"family": "golay", "extended": False, "info": "left", "info_kind": "left"}, "syndrome", False),
        ("repetition(5)", {"family": "repetition", "n": 5}, "syndrome", False),
        ("repetition(6)", {"family": "repetition", "n": 6}, "bruteforce", False),
        ("repetition(3)", {"family": "repetition", "n": 3}, "bruteforce", False),
        ("rm(1,3)", {"family": "rm", "r": 1, "m": 3}, "rm_majority", False),
        ("rm(1,4)", {"family": "rm", "r": 1, "m": 4}, "rm_majority", False),
        ("rm(2,4)", {"family": "rm", "r": 2, "m": 4}, "rm_majority", False),
        ("cyclic(7,4)", {"family": "cyclic", "n": 7, "g": 0b1011, "h": 0b10111, "src": "g", "info": "left", "info_kind": "left"}, "syndrome", False),
        # sibling codes: same class and (n, k) as an entry above, different code (per-class state must not leak)
        ("cyclic(7,4),g=1101", {"family": "cyclic", "n": 7, "g": 0b1101, "h": 0b11101, "src": "g", "info": "left", "info_kind": "left"}, "syndrome", False),
        ("hamming(7,4),right", {"family": "hamming", "mu": 3, "extended": False, "info": "right", "info_kind": "right"}, "syndrome", False),
        ("cyclic(15,11)", {"family": "cyclic", "n": 15, "g": 0b10011, "h": 0, "src": "g", "info": "right", "info_kind": "right"}, "syndrome", False),
        ("spc(5)", {"family": "spc", "k": 5}, "syndrome", False),
        # index-list information sets (ascending and permuted): the message sits at scattered codeword positions
        ("hamming(7,4),list", {"family": "hamming", "mu": 3, "extended": False, "info": [1, 2, 4, 6], "info_kind": "sorted_list"}, "syndrome", False),
        ("hamming(7,4),permuted", {"family": "hamming", "mu": 3, "extended": False, "info": [6, 0, 3, 5], "info_kind": "permuted_list"}, "bruteforce", False),
        ("cyclic(7,4),list", {"family": "cyclic", "n": 7, "g": 0b1011, "h": 0b10111, "src": "g", "info": [0, 2, 3, 5], "info_kind": "sorted_list"}, "syndrome", False),
        ("systematic(7,3),permuted", {"family": "systematic", "P": [[1, 1, 0, 1], [0, 1, 1, 1], [1, 0, 1, 1]], "info": [5, 1, 3], "info_kind": "permuted_list"}, "syndrome", False),
        ("golay(23,12),list", {"family": "golay", "extended": False, "info": [0, 1, 3, 4, 6, 8, 9, 11, 13, 16, 19, 22], "info_kind": "sorted_list"}, "syndrome", False),
        ("hamming(7,4)", {"family": "hamming", "mu": 3, "extended": False, "info": "left", "info_kind": "left"}, "bp", True),
        ("hamming(7,4)", {"family": "hamming", "mu": 3, "extended": False, "info": "left", "info_kind": "left"}, "minsum", True),
        ("ldpc(6,3)", {"family": "ldpc", "kind": "example3x6", "H": [[1, 1, 0, 1, 0, 0], [0, 1, 1, 0, 1, 0], [1, 0, 1, 0, 0, 1]]}, "bp", True),
        ("ldpc(6,3)", {"family": "ldpc", "kind": "example3x6", "H": [[1, 1, 0, 1, 0, 0], [0, 1, 1, 0, 1, 0], [1, 0, 1, 0, 0, 1]]}, "minsum", True),
        ("spc(5)", {"family": "spc", "k": 5}, "wagner", True),
        ("spc(7)", {"family": "spc", "k": 7}, "wagner", True),
        ("polar(8,4)", {"family": "polar", "N": 8, "k": 4}, "sc", True),
        ("polar(16,8)", {"family": "polar", "N": 16, "k": 8}, "sc", True),
        ("polar(16,8)", {"family": "polar", "N": 16, "k": 8}, "polar_bp", True),
        ("rm(1,3)", {"family": "rm", "r": 1, "m": 3}, "rm_soft", True),
        ("rm(1,4)", {"family": "rm", "r": 1, "m": 4}, "rm_soft", True),
    ]
    if not q:
        out += [
            ("bch(31,21)", {"family": "bch", "mu": 5, "delta": 5, "info": "left", "info_kind": "left"}, "bm", False),
            ("bch(15,11)", {"family": "bch", "mu": 4, "delta": 3, "info": "right", "info_kind": "right"}, "bm", False),
            ("rm(1,5)", {"family": "rm", "r": 1, "m": 5}, "rm_majority", False),
            ("polar(32,16)", {"family": "polar", "N": 32, "k": 16}, "sc", True),
            ("golay(24,12)", {"family": "golay", "extended": True, "info": "right", "info_kind": "right"}, "syndrome", False),
        ]
    return out


def build_code(spec):
    from kaira.models.fec import encoders as E

    if spec["family"] == "polar":
        with contextlib.redirect_stdout(io.StringIO()):
            return E.PolarCodeEncoder(spec["k"], spec["N"], frozen_zeros=True)
    return cat.build(spec)


def build_decoder(name, enc):
    from kaira.models.fec import decoders as D

    with contextlib.redirect_stdout(io.StringIO()):
        return {
            "syndrome": lambda: D.SyndromeLookupDecoder(enc),
            "bruteforce": lambda: D.BruteForceMLDecoder(enc),
            "bm": lambda: D.BerlekampMasseyDecoder(enc),
            "rm_majority": lambda: D.ReedMullerDecoder(enc, input_type="hard"),
            "rm_soft": lambda: D.ReedMullerDecoder(enc, input_type="soft"),
            "bp": lambda: D.BeliefPropagationDecoder(enc, bp_iters=10),
            "minsum": lambda: D.MinSumLDPCDecoder(enc, bp_iters=10),
            "wagner": lambda: D.WagnerSoftDecisionDecoder(enc),
            "sc": lambda: D.SuccessiveCancellationDecoder(enc),
            "polar_bp": lambda: D.BeliefPropagationPolarDecoder(enc, bp_iters=20),
        }[name]()


def modem_list(tier):
    ms = [s for s in modems.catalogue(tier) if s.get("via") == "direct" and s["scheme"] not in ("identity", "oqpsk")]
    if tier == "quick":
        keep = []
        seen = set()
        for s in ms:
            key = (s["scheme"], s.get("order"), s.get("gray"), s.get("normalize") is False)
            if key in seen or s.get("complex_output") is False or s.get("form"):
                continue
            seen.add(key)
            keep.append(s)
        ms = keep
    return ms


def units(tier, seed):
    out = []
    for ci, (label, spec, dec, soft) in enumerate(code_pairings(tier)):
        n = spec.get("N") or None
        for s in modem_list(tier):
            b = modems.bits_per_symbol(s)
            nn = _n_of(spec)
            if nn % b != 0:
                continue
            if tier == "quick" and s.get("normalize") is False and label not in ("golay(24,12)", "hamming(8,4)"):
                continue  # un-normalised constellations: every (scheme, order, labelling) once, on two codes
            if tier == "quick" and s.get("order", 4) > 16 and not (nn % b == 0 and b in (5, 6, 8) and label in ("golay(24,12)", "bch(15,7),left", "rm(1,4)", "repetition(5)", "repetition(6)")):
                continue
            out.append({"unit": f"{label}+{dec}+{modems.cfg(s)}", "code": spec, "label": label, "decoder": dec, "soft": soft, "modem": s, "cost": 1 + nn / 8 + s.get("order", 4) / 32, "group": f"{dec}:{nn}:{s['scheme']}:{s.get('order', 0)}"})
    return out


def _n_of(spec):
    if spec["family"] == "polar":
        return spec["N"]
    from vk.checks.c02 import _nk

    return _nk(spec)[0]


def run_unit(ctx, u):
    import torch

    from kaira.channels import LambdaChannel, PerfectChannel
    from kaira.constraints import IdentityConstraint
    from kaira.models.channel_code import ChannelCodeModel

    rng = random.Random(f"c09-{ctx.seed}-{u['unit']}")
    q = ctx.tier == "quick"
    s = u["modem"]
    soft = u["soft"]
    enc = build_code(u["code"])
    dec = build_decoder(u["decoder"], enc)
    n, k = int(enc.code_length), int(enc.code_dimension)
    b = modems.bits_per_symbol(s)
    mod, dem = modems.build(s)
    differential = s["scheme"] in ("dpsk", "dbpsk", "dqpsk")
    chain = f"{u['decoder']}|{modems.cfg_class(s)}"

    class Preamble(torch.nn.Module):
        """the real modulator, fed a known reference symbol first (differential schemes only)"""

        def __init__(self, m):
            super().__init__()
            self.m = m
            self.bits_per_symbol = m.bits_per_symbol

        def forward(self, x, *a, **kw):
            pre = torch.zeros(*x.shape[:-1], b, dtype=x.dtype)
            self.m.reset_state()
            return self.m(torch.cat([pre, x], dim=-1))

    tx_mod = Preamble(mod) if differential else mod
    log = []

    def tap(name, m):
        m.register_forward_hook(lambda mod_, inp, out: log.append(name))

    for nm, m in (("encoder", enc), ("modulator", tx_mod), ("demodulator", dem), ("decoder", dec)):
        tap(nm, m)

    # reference facts
    basis = cat.rows_to_ints(quiet(enc, torch.eye(k)))
    rb, _ = gf2.rref(basis)
    d_true = gf2.min_distance(rb, n) if len(rb) == k else 1
    t = (d_true - 1) // 2
    eff = modems.effective_constellation(s, mod)
    if differential:
        eff.pop("_spread", None)
    if s["scheme"] == "pi4qpsk":
        dmin = min(refmod.Ref(eff["even"]).dmin, refmod.Ref(eff["odd"]).dmin)
    else:
        dmin = refmod.Ref(eff).dmin

    msgs_all = cat.all_messages(k) if k <= 8 else cat.sample_messages(rng, k, 64 if q else 256)
    if q and msgs_all.shape[0] > 64:
        idx = [0, msgs_all.shape[0] - 1] + rng.sample(range(msgs_all.shape[0]), 62)
        msgs_all = msgs_all[idx]

    def run(channel, msgs):
        modems.fresh(mod, dem)
        log.clear()
        model = ChannelCodeModel(enc, IdentityConstraint(), tx_mod, channel, dem, dec)
        with contextlib.redirect_stdout(io.StringIO()):
            return model(msgs, noise_var=1.0) if soft else model(msgs)

    def judge(clause, fault, channel, msgs):
        ctx.case(u["unit"], clause, fault, int(msgs.sum()), msgs.shape[0], nontrivial=bool(msgs.any()) or fault != "none")
        try:
            out = run(channel, msgs)
        except Exception as e:  # noqa: BLE001
            ctx.violation(f"{chain}|{fault.split(':')[0]}|{clause}|raised:{type(e).__name__}", unit=u["unit"], error=str(e)[:300])
            return
        if isinstance(out, tuple):
            out = out[0]
        ok = tuple(out.shape) == tuple(msgs.shape) and bool((out.double().round() == msgs.double()).all())
        order_ok = log == ["encoder", "modulator", "demodulator", "decoder"]
        ctx.check(order_ok, "stage order", f"{chain}|-|stage order|stages ran in another order or not exactly once", observed=list(log))
        if ok:
            ctx.ok(clause, msgs.shape[0])
        else:
            row = 0
            if tuple(out.shape) == tuple(msgs.shape):
                row = int((out.double().round() != msgs.double()).any(dim=1).nonzero()[0])
            ctx.violation(f"{chain}|{fault.split(':')[0]}|{clause}|wrong message", unit=u["unit"], fault=fault, message=msgs[row], decoded=out[row] if out.dim() > 1 and out.shape[0] > row else list(out.shape), n=n, k=k, t=t)

    # ---- (a) perfect channel, batch sizes 1 and 4 and all messages
    judge("link:perfect channel", "none", PerfectChannel(), msgs_all)
    judge("link:perfect channel", "none", PerfectChannel(), msgs_all[:1])
    # the same message bits in other dtypes: a chain that accepts them must still return the message
    for dt in (torch.int64, torch.uint8, torch.float64):
        mm = msgs_all[: min(8, msgs_all.shape[0])].to(dt)
        try:
            modems.fresh(mod, dem)
            model = ChannelCodeModel(enc, IdentityConstraint(), tx_mod, PerfectChannel(), dem, dec)
            with contextlib.redirect_stdout(io.StringIO()):
                out = model(mm, noise_var=1.0) if soft else model(mm)
        except Exception:  # noqa: BLE001
            ctx.skip(f"chain rejects {str(dt).replace('torch.', '')} messages")
            continue
        out = out[0] if isinstance(out, tuple) else out
        ctx.case(u["unit"], "dtype", str(dt))
        ok = tuple(out.shape) == tuple(mm.shape) and bool((out.double().round() == mm.double()).all())
        ctx.check(ok, "link:perfect channel", f"{chain}|none|link:perfect channel|wrong message for {str(dt).replace('torch.', '')} message bits", unit=u["unit"], message=mm[-1], decoded=out[-1] if out.dim() > 1 else list(out.shape))
    judge("link:perfect channel", "none", PerfectChannel(), msgs_all[1:5])

    # ---- (b) <= t flips per block (hard-decision chains)
    if not soft and t >= 1:
        pats = [(j,) for j in range(n)]
        if t >= 2:
            pairs = list(itertools.combinations(range(n), 2))
            pats += pairs if n <= 15 else rng.sample(pairs, min(len(pairs), 60 if q else 400))
        for w in range(3, t + 1):
            if n <= 15 and w == 3:
                pats += list(itertools.combinations(range(n), 3))  # every triple: exactly-t patterns are where decoders break
            else:
                pats += [tuple(rng.sample(range(n), w)) for _ in range(20 if q else 200)]
        cap = 80 if t < 3 else 560
        if q and len(pats) > cap:
            pats = rng.sample(pats, cap)
        if q and t >= 3 and s.get("order", 2) > 4:
            pats = rng.sample(pats, min(len(pats), 120))
        mod2, _ = modems.build(s)
        tx2 = Preamble(mod2) if differential else mod2
        B = 4
        for g0 in range(0, len(pats), B):
            group = pats[g0 : g0 + B]
            msgs = msgs_all[[rng.randrange(msgs_all.shape[0]) for _ in group]]
            cw = quiet(enc, msgs)
            flipped = cw.clone()
            for r, pat in enumerate(group):
                for j in pat:
                    flipped[r, j] = 1 - flipped[r, j]
            sent = {}

            def fn(y, *a, _flipped=flipped, **kw):
                sent["y"] = y
                mod2.reset_state()
                return tx2(_flipped)

            judge("link:<=t bit flips per block", f"flips:{max(len(p) for p in group)}", LambdaChannel(fn), msgs)
    elif not soft:
        ctx.skip("code corrects no errors (t=0)")

    # ---- (c) bounded symbol displacement
    if not differential:
        for frac in (0.5, 0.98):
            for _ in range(2 if q else 8):
                msgs = msgs_all[[rng.randrange(msgs_all.shape[0]) for _ in range(4)]]
                nsym = n // b
                ang = torch.tensor([[rng.uniform(0, 2 * math.pi) for _ in range(nsym)] for _ in range(4)])
                delta = torch.polar(torch.full((4, nsym), frac * dmin / 2), ang)

                def fn(y, *a, _d=delta, **kw):
                    yc = y if torch.is_complex(y) else torch.complex(y, torch.zeros_like(y))
                    return yc + _d

                judge("link:symbol displacement < d_min/2", f"displacement:{frac}", LambdaChannel(fn), msgs)
    else:
        ctx.skip("differential scheme: displacement clause not applicable")
    if len(ctx.samples) < 6 and rng.random() < 0.2:
        ctx.sample({"unit": u["unit"], "n": n, "k": k, "t": t, "bits_per_symbol": b, "d_min": dmin, "messages": int(msgs_all.shape[0])})


def quiet(fn, *a, **kw):
    with contextlib.redirect_stdout(io.StringIO()):
        return fn(*a, **kw)
