"""C17 - pipeline models run their stages in declared order, independent of thread timing."""
from __future__ import annotations

import itertools
import random
import threading
import time

PROPERTY = "C17"
RULE = (
    "recording stages (order-sensitive f_i(x)=x*p_i+i with distinct primes) logged into an event history that an offline checker compares with a list model: sequential pipelines of "
    "0..6 stages with forwarded args/kwargs (Sequential, Configurable, DeepJSCC, ChannelCode, WynerZiv), all add/remove-step histories up to length 5 over 3 steps (exhaustive), "
    "feedback 1..5 rounds, MAC 1..4 users x shared/per-user encoders x joint/separate decoders, branching under every truth assignment of <=4 overlapping conditions; parallel model: "
    "every completion permutation the executor can realise is FORCED by a schedule controller (n=1..5 branches, workers 1..n and default) with order-sensitive aggregators. "
    "Distinct = (model kind, configuration, history/schedule); non-trivial = >=2 stages/branches."
    " Added after the seeded-fault rounds: one branching model across a sequence of inputs with overlapping conditions and a removal in between; parallel models with every one- and two-element subset of raising branches."
    " Round 5: two pipelines (Sequential, Parallel) declared from one caller-owned list object and edited separately, each compared with its own list model."
)
ASSUMPTIONS = [
    "a permutation pi is realisable with w workers iff pi[k] < w + k (FIFO dispatch); infeasible ones are not attempted",
    "the order actually observed at Future.set_result is logged and must equal the requested one, otherwise the schedule is inconclusive (never a violation)",
    "exceptions inside branches are outside the property",
]
REQUIRED = ["sequential:order,once,forwarding", "parallel:name->own result", "parallel:aggregator gets declared order", "branching:first matching branch only", "feedback:rounds and per-round order", "mac:sum->one constraint->one channel->decoders", "history:add/remove = list model"]
JOBS = {"quick": 4, "thorough": 8}
TIMEOUT = {"quick": 900, "thorough": 3600}
EXHAUSTIVE_NOTE = "every feasible completion permutation for n<=5 branches and every worker count; every add/remove history up to length 5; every truth assignment of <=4 branch conditions"
PRIMES = [2, 3, 5, 7, 11, 13, 17, 19]


def units(tier, seed):
    out = [
        {"unit": "sequential", "kind": "sequential", "cost": 1},
        {"unit": "histories", "kind": "histories", "cost": 3},
        {"unit": "branching", "kind": "branching", "cost": 1},
        {"unit": "feedback", "kind": "feedback", "cost": 1},
        {"unit": "mac", "kind": "mac", "cost": 1},
    ]
    for n in range(1, 6):
        out.append({"unit": f"parallel-n{n}", "kind": "parallel", "n": n, "cost": 1 + n * n / 4})
    if tier == "thorough":
        for i in range(8):
            out.append({"unit": f"parallel-random-{i}", "kind": "parallel_random", "runs": 250, "shard": i, "cost": 6})
    return out


# ---------------------------------------------------------------- recording stages
class Log:
    def __init__(self):
        self.events = []
        self.lock = threading.Lock()

    def add(self, *ev):
        with self.lock:
            self.events.append(ev)


def make_stage_classes():
    import torch

    from kaira.channels.base import BaseChannel
    from kaira.constraints.base import BaseConstraint
    from kaira.models.base import BaseModel

    def body(self, x, args, kwargs):
        self.log.add(self.name, float(x.sum()) if isinstance(x, torch.Tensor) else x, tuple(args), tuple(sorted(kwargs.items())))
        return x * self.p + self.i

    class RecModel(BaseModel):
        def __init__(self, log, name, i):
            super().__init__()
            self.log, self.name, self.i, self.p = log, name, i, PRIMES[i % len(PRIMES)]

        def forward(self, x, *args, **kwargs):
            return body(self, x, args, kwargs)

    class RecChannel(BaseChannel):
        def __init__(self, log, name, i):
            super().__init__()
            self.log, self.name, self.i, self.p = log, name, i, PRIMES[i % len(PRIMES)]

        def forward(self, x, *args, **kwargs):
            return body(self, x, args, kwargs)

    class RecConstraint(BaseConstraint):
        def __init__(self, log, name, i):
            super().__init__()
            self.log, self.name, self.i, self.p = log, name, i, PRIMES[i % len(PRIMES)]

        def forward(self, x, *args, **kwargs):
            return body(self, x, args, kwargs)

    return RecModel, RecChannel, RecConstraint


def f(i, x):
    return x * PRIMES[i % len(PRIMES)] + i


# ---------------------------------------------------------------- schedule controller
def feasible(perm, w):
    return all(p < w + k for k, p in enumerate(perm))


def run_forced(model_factory, n, perm, x, timeout=10.0):
    """Run model(x) while forcing branch completion order `perm`. Returns (output, observed order) or raises TimeoutError."""
    from concurrent.futures import Future

    events = [threading.Event() for _ in range(n)]
    done = []
    cv = threading.Condition()
    tl = threading.local()
    failed = []

    def mk(i):
        def branch(v, *a, **kw):
            tl.idx = i
            if not events[i].wait(timeout):
                failed.append(i)
            return f(i, v)

        return branch

    orig = Future.set_result

    def patched(self, result):
        orig(self, result)
        idx = getattr(tl, "idx", None)
        with cv:
            done.append(idx)
            cv.notify_all()

    def controller():
        for k, i in enumerate(perm):
            events[i].set()
            with cv:
                if not cv.wait_for(lambda: len(done) > k, timeout):
                    failed.append(("controller", k))
                    for e in events:
                        e.set()
                    return

    model = model_factory([mk(i) for i in range(n)])
    Future.set_result = patched
    th = threading.Thread(target=controller, daemon=True)
    try:
        th.start()
        out = model(x)
    finally:
        Future.set_result = orig
        for e in events:
            e.set()
        th.join(timeout)
    if failed:
        raise TimeoutError(f"schedule {perm} not realised: {failed}")
    return out, list(done)


def run_unit(ctx, u):
    import torch

    from kaira.models.base import ConfigurableModel
    from kaira.models.generic import ParallelModel, SequentialModel
    from kaira.models.generic.branching import BranchingModel

    kind = u["kind"]
    rng = random.Random(f"c17-{ctx.seed}-{u['unit']}")
    RecModel, RecChannel, RecConstraint = make_stage_classes()
    x0 = torch.tensor([1.0, 2.0, 3.0])

    def expect_chain(idxs, x):
        for i in idxs:
            x = f(i, x)
        return x

    def check_log(log, names, x, args, kwargs, tag, key):
        """stage events exactly [names] once each, each input = predecessor's output, args forwarded."""
        ev = log.events
        ok = [e[0] for e in ev] == names
        cur = x
        if ok:
            for e, nm in zip(ev, names):
                i = int(nm.split("#")[1])
                if abs(e[1] - float(cur.sum())) > 1e-3 * (1 + abs(float(cur.sum()))) or e[2] != tuple(args) or e[3] != tuple(sorted(kwargs.items())):
                    ok = False
                    break
                cur = f(i, cur)
        ctx.check(ok, tag, key, expected=names, observed=[e[0] for e in ev], args=list(args), kwargs=dict(kwargs))
        return ok

    if kind == "sequential":
        for cls_name, make in (("SequentialModel", lambda st: SequentialModel(st)), ("ConfigurableModel", None)):
            for nst in range(0, 7):
                for args, kwargs in (((), {}), ((7,), {}), ((), {"gain": 3}), ((1, 2), {"a": 1, "b": 2})):
                    log = Log()
                    stages = [RecModel(log, f"s#{i}", i) for i in range(nst)]
                    if make is not None:
                        model = make(stages)
                    else:
                        model = ConfigurableModel()
                        for s in stages:
                            model.add_step(s)
                    out = model(x0, *args, **kwargs)
                    ctx.case(cls_name, nst, args, tuple(kwargs), nontrivial=nst >= 2)
                    ok = check_log(log, [f"s#{i}" for i in range(nst)], x0, args, kwargs, "sequential:order,once,forwarding", f"{cls_name}|stages|sequential:order,once,forwarding|wrong order/count/forwarding")
                    ctx.check(bool(torch.equal(out, expect_chain(range(nst), x0))), "sequential:output", f"{cls_name}|stages|sequential:output|wrong value", stages=nst)
        # permuted declared order (stage ids not sorted)
        for _ in range(20):
            order = rng.sample(range(6), rng.randint(2, 6))
            log = Log()
            model = SequentialModel([RecModel(log, f"s#{i}", i) for i in order])
            out = model(x0)
            ctx.case("SequentialModel", "perm", tuple(order))
            check_log(log, [f"s#{i}" for i in order], x0, (), {}, "sequential:order,once,forwarding", "SequentialModel|permuted ids|sequential:order,once,forwarding|wrong order/count/forwarding")
            ctx.check(bool(torch.equal(out, expect_chain(order, x0))), "sequential:output", "SequentialModel|permuted ids|sequential:output|wrong value")
        # DeepJSCC / ChannelCode / WynerZiv stage order
        from kaira.models.channel_code import ChannelCodeModel
        from kaira.models.deepjscc import DeepJSCCModel
        from kaira.models.wyner_ziv import WynerZivModel

        log = Log()
        m = DeepJSCCModel(RecModel(log, "enc#0", 0), RecConstraint(log, "con#1", 1), RecChannel(log, "ch#2", 2), RecModel(log, "dec#3", 3))
        for args, kwargs in (((), {}), ((), {"snr": 5})):
            log.events.clear()
            out = m(x0, *args, **kwargs)
            ctx.case("DeepJSCCModel", tuple(kwargs))
            check_log(log, ["enc#0", "con#1", "ch#2", "dec#3"], x0, args, kwargs, "sequential:order,once,forwarding", "DeepJSCCModel|encoder,constraint,channel,decoder|sequential:order,once,forwarding|wrong order/count/forwarding")
        log = Log()
        m = ChannelCodeModel(RecModel(log, "enc#0", 0), RecConstraint(log, "con#2", 2), RecModel(log, "mod#1", 1), RecChannel(log, "ch#3", 3), RecModel(log, "dem#4", 4), RecModel(log, "dec#5", 5))
        for args, kwargs in (((), {}), ((), {"noise_var": 2})):
            log.events.clear()
            out = m(x0, *args, **kwargs)
            ctx.case("ChannelCodeModel", tuple(kwargs))
            check_log(log, ["enc#0", "mod#1", "con#2", "ch#3", "dem#4", "dec#5"], x0, args, kwargs, "sequential:order,once,forwarding", "ChannelCodeModel|encoder,modulator,constraint,channel,demodulator,decoder|sequential:order,once,forwarding|wrong order/count/forwarding")
            ctx.check(bool(torch.equal(out, expect_chain(range(6), x0))), "sequential:output", "ChannelCodeModel|stages|sequential:output|wrong value")

        class Dec2(RecModel):
            def forward(self, x, side, *a, **kw):
                self.log.add(self.name, float(x.sum()), ("side", float(side.sum())), ())
                return x * self.p + self.i + side

        for use_q, use_s, use_c in itertools.product((False, True), repeat=3):
            log = Log()
            m = WynerZivModel(RecModel(log, "enc#0", 0), RecChannel(log, "ch#4", 4), Dec2(log, "dec#5", 5), quantizer=RecModel(log, "q#1", 1) if use_q else None, syndrome_generator=RecModel(log, "syn#2", 2) if use_s else None, constraint=RecConstraint(log, "con#3", 3) if use_c else None)
            side = torch.tensor([0.5, 0.5, 0.5])
            out = m(x0, side)
            names = ["enc#0"] + (["q#1"] if use_q else []) + (["syn#2"] if use_s else []) + (["con#3"] if use_c else []) + ["ch#4", "dec#5"]
            ctx.case("WynerZivModel", use_q, use_s, use_c)
            ok = [e[0] for e in log.events] == names
            ctx.check(ok, "sequential:order,once,forwarding", "WynerZivModel|optional stages|sequential:order,once,forwarding|wrong order/count/forwarding", expected=names, observed=[e[0] for e in log.events])
            exp = expect_chain([int(nm.split("#")[1]) for nm in names], x0) + side
            ctx.check(bool(torch.allclose(out, exp)), "sequential:output", "WynerZivModel|optional stages|sequential:output|wrong value")
        ctx.sample({"unit": "sequential", "stage_counts": list(range(7)), "models": ["SequentialModel", "ConfigurableModel", "DeepJSCCModel", "ChannelCodeModel", "WynerZivModel"]})
        return

    if kind == "histories":
        ops_alphabet = [("add", 0), ("add", 1), ("add", 2), ("rm", 0), ("rm", 1)]
        hist = [h for L in range(0, 6) for h in itertools.product(ops_alphabet, repeat=L)]
        hist += [tuple(rng.choice(ops_alphabet + [("rm", 2), ("rm", 5)]) for _ in range(rng.randint(6, 30))) for _ in range(200 if ctx.tier == "quick" else 3000)]
        for cls_name in ("SequentialModel", "ConfigurableModel", "ParallelModel"):
            for h in hist if cls_name != "ParallelModel" else hist[:: 4 if ctx.tier == "quick" else 1]:
                log = Log()
                stages = [RecModel(log, f"s#{i}", i) for i in range(3)]
                model = SequentialModel() if cls_name == "SequentialModel" else (ConfigurableModel() if cls_name == "ConfigurableModel" else ParallelModel(aggregator=lambda rs: tuple(float(r.sum()) for r in rs)))
                ref = []
                bad = None
                for op, a in h:
                    if op == "add":
                        if cls_name == "ParallelModel":
                            model.add_step(stages[a], name=f"n{len(ref)}_{a}_{rng.random()}")
                        else:
                            model.add_step(stages[a])
                        ref.append(a)
                    else:
                        try:
                            model.remove_step(a)
                            if not (0 <= a < len(ref)):
                                bad = "removed out-of-range index silently"
                            else:
                                ref.pop(a)
                        except IndexError:
                            if 0 <= a < len(ref):
                                bad = "IndexError on a valid index"
                ctx.case(cls_name, h, nontrivial=len(ref) >= 2)
                if bad:
                    ctx.violation(f"{cls_name}|add/remove history|history:add/remove = list model|{bad}", history=[list(o) for o in h])
                    continue
                out = model(x0)
                if cls_name == "ParallelModel":
                    exp = tuple(float(f(a, x0).sum()) for a in ref) if ref else {}
                    ok = out == exp
                else:
                    ok = [e[0] for e in log.events] == [f"s#{a}" for a in ref] and bool(torch.equal(out, expect_chain(ref, x0)))
                ctx.check(ok, "history:add/remove = list model", f"{cls_name}|add/remove history|history:add/remove = list model|differs from list model", history=[list(o) for o in h], list_model=ref)
        # two pipelines declared from ONE caller-owned list object, then edited separately: each must follow its own list model
        def apply(model, ref, h, par, tag):
            for op, a in h:
                if op == "add":
                    if par:
                        model.add_step(stages[a], name=f"{tag}{len(ref)}_{a}_{rng.random()}")
                    else:
                        model.add_step(stages[a])
                    ref.append(a)
                elif 0 <= a < len(ref):
                    model.remove_step(a)
                    ref.pop(a)

        for cls_name in ("SequentialModel", "ParallelModel"):
            par = cls_name == "ParallelModel"
            for hi, h in enumerate(hist[1 :: 5 if ctx.tier == "quick" else 2]):
                log = Log()
                stages = [RecModel(log, f"s#{i}", i) for i in range(3)]
                init = [0, 1] if hi % 2 else [2]
                declared = [(f"d{j}", stages[a]) for j, a in enumerate(init)] if par else [stages[a] for a in init]
                agg = lambda rs: tuple(float(r.sum()) for r in rs)  # noqa: E731
                A = ParallelModel(steps=declared, aggregator=agg) if par else SequentialModel(declared)
                B = ParallelModel(steps=declared, aggregator=agg) if par else SequentialModel(declared)
                ref_a, ref_b = list(init), list(init)
                apply(A, ref_a, h, par, "a")
                apply(B, ref_b, h[::-1][: len(h) // 2], par, "b")
                ctx.case(cls_name, "twins", h, init, nontrivial=len(ref_a) >= 2 or len(ref_b) >= 2)
                good = len(declared) == len(init)  # the caller's list itself is left alone
                for model, ref in ((A, ref_a), (B, ref_b)):
                    log.events.clear()
                    out = model(x0)
                    if par:
                        good = good and out == (tuple(float(f(a, x0).sum()) for a in ref) if ref else {})
                    else:
                        good = good and [e[0] for e in log.events] == [f"s#{a}" for a in ref] and bool(torch.equal(out, expect_chain(ref, x0)))
                ctx.check(good, "history:add/remove = list model", f"{cls_name}|two pipelines declared from one list|history:add/remove = list model|differs from list model", history=[list(o) for o in h], init=init, list_model_a=ref_a, list_model_b=ref_b)
        ctx.exhaustive_units += 1
        ctx.sample({"unit": "histories", "histories": len(hist), "example": [list(o) for o in hist[77]]})
        return

    if kind == "branching":
        for nb in range(1, 5):
            for truth in itertools.product((False, True), repeat=nb):
                for with_default in (True, False):
                    log = Log()
                    m = BranchingModel()
                    for j in range(nb):
                        m.add_branch(f"b{j}", (lambda t: (lambda x: torch.tensor(t)))(truth[j]) if j % 2 else (lambda t: (lambda x: t))(truth[j]), RecModel(log, f"b#{j}", j))
                    if with_default:
                        m.set_default_branch(RecModel(log, "b#7", 7))
                    first = next((j for j in range(nb) if truth[j]), None)
                    ctx.case("branching", truth, with_default, nontrivial=sum(truth) >= 2)
                    try:
                        out, name = m(x0, return_branch=True)
                    except RuntimeError:
                        ctx.check(first is None and not with_default, "branching:first matching branch only", "BranchingModel|no match, no default|branching:first matching branch only|raised although a branch matches", truth=list(truth))
                        continue
                    exp_names = [f"b#{first}"] if first is not None else ["b#7"]
                    ok = [e[0] for e in log.events] == exp_names and name == (f"b{first}" if first is not None else "default") and bool(torch.equal(out, f(first if first is not None else 7, x0)))
                    ctx.check(ok, "branching:first matching branch only", "BranchingModel|overlapping conditions|branching:first matching branch only|wrong branch / more than one ran", truth=list(truth), ran=[e[0] for e in log.events], reported=name)
        # one model, a sequence of inputs that alternates between overlapping branches: every call runs the first
        # matching branch in registration order, whatever the previous calls took (also after a removal)
        log = Log()
        m = BranchingModel()
        conds = [("small", lambda x: float(x.sum()) < 5, 0), ("medium", lambda x: float(x.sum()) < 10, 1), ("any", lambda x: True, 2)]
        for nm_, c_, j in conds:
            m.add_branch(nm_, c_, RecModel(log, f"b#{j}", j))
        m.set_default_branch(RecModel(log, "b#7", 7))
        seq_sums = [-1.0, 3.0, 7.0, 12.0, 7.0, 3.0, 12.0, -1.0, 7.0, 7.0, 3.0]
        for step, sm in enumerate(seq_sums + seq_sums[::-1]):
            if step == len(seq_sums):
                m.remove_branch("medium")
                conds = [c for c in conds if c[0] != "medium"]
            xs = torch.full((4,), sm / 4)
            log.events.clear()
            out, name = m(xs, return_branch=True)
            exp = next(((nm_, j) for nm_, c_, j in conds if c_(xs)), ("default", 7))
            ctx.case("branching-seq", step, sm)
            ok = [e[0] for e in log.events] == [f"b#{exp[1]}"] and name == exp[0]
            ctx.check(ok, "branching:first matching branch only", "BranchingModel|one model across a sequence of inputs|branching:first matching branch only|wrong branch after earlier calls", step=step, input_sum=sm, ran=[e[0] for e in log.events], reported=name, expected=exp[0])
        # convenience constructor
        for c in (True, False):
            log = Log()
            m = BranchingModel(condition=lambda x, c=c: c, true_branch=RecModel(log, "b#0", 0), false_branch=RecModel(log, "b#1", 1))
            out = m(x0)
            ctx.case("branching-ctor", c)
            ctx.check([e[0] for e in log.events] == ["b#0" if c else "b#1"], "branching:first matching branch only", "BranchingModel|condition/true/false constructor|branching:first matching branch only|wrong branch")
        ctx.exhaustive_units += 1
        ctx.sample({"unit": "branching", "branches": "1..4", "truth_assignments": "all"})
        return

    if kind == "feedback":
        from kaira.models.feedback_channel import FeedbackChannelModel

        class Enc(RecModel):
            def forward(self, x, *a, state=None, **kw):
                self.log.add(self.name, "state" if state is not None else "nostate")
                return x + 1

        class Gen(RecModel):
            def forward(self, dec, inp, *a, **kw):
                self.log.add(self.name)
                return dec - inp

        class One(RecModel):
            def forward(self, x, *a, **kw):
                self.log.add(self.name)
                return x

        class OneCh(RecChannel):
            def forward(self, x, *a, **kw):
                self.log.add(self.name)
                return x

        for iters in range(1, 6):
            log = Log()
            m = FeedbackChannelModel(Enc(log, "enc#0", 0), OneCh(log, "fwd#1", 1), One(log, "dec#2", 2), Gen(log, "gen#3", 3), OneCh(log, "fb#4", 4), One(log, "proc#5", 5), max_iterations=iters)
            res = m(x0)
            exp = []
            for r in range(iters):
                if r > 0:
                    exp.append("proc#5")
                exp += ["enc#0", "fwd#1", "dec#2", "gen#3", "fb#4"]
            obs = [e[0] for e in log.events]
            ctx.case("feedback", iters, nontrivial=iters >= 2)
            states = [e[1] for e in log.events if e[0] == "enc#0"]
            ok = obs == exp and len(res["iterations"]) == iters and len(res["feedback_history"]) == iters and states == ["nostate"] + ["state"] * (iters - 1)
            ctx.check(ok, "feedback:rounds and per-round order", "FeedbackChannelModel|iterations|feedback:rounds and per-round order|wrong rounds or order", iterations=iters, observed=obs, expected=exp)
        ctx.sample({"unit": "feedback", "iterations": [1, 2, 3, 4, 5]})
        return

    if kind == "mac":
        from kaira.models.multiple_access_channel import MultipleAccessChannelModel

        for users in range(1, 5):
            for shared_enc in (False, True):
                for joint in (True, False):
                    log = Log()
                    encs = RecModel(log, "enc#0", 0) if shared_enc else [RecModel(log, f"enc#{i}", i) for i in range(users)]
                    decs = RecModel(log, "dec#6", 6) if joint else [RecModel(log, f"dec#{6}", 6) for _ in range(users)]
                    if not joint and users == 1:
                        continue
                    try:
                        m = MultipleAccessChannelModel(encs, decs, RecChannel(log, "ch#5", 5), RecConstraint(log, "con#4", 4), num_devices=users)
                    except Exception as e:  # noqa: BLE001
                        ctx.skip(f"MAC configuration rejected: {type(e).__name__}")
                        continue
                    xs = [x0.reshape(1, 3) * (j + 1) for j in range(users)]
                    out = m(xs)
                    enc_ids = [0] * users if shared_enc else list(range(users))
                    summed = sum(f(i, xj) for i, xj in zip(enc_ids, xs))
                    after = f(5, f(4, summed))
                    exp_names = [f"enc#{i}" for i in enc_ids] + ["con#4", "ch#5"] + (["dec#6"] if joint else ["dec#6"] * users)
                    obs = [e[0] for e in log.events]
                    con_in = [e[1] for e in log.events if e[0] == "con#4"]
                    ch_in = [e[1] for e in log.events if e[0] == "ch#5"]
                    exp_out = f(6, after) if joint else torch.cat([f(6, after)] * users, dim=1)
                    ctx.case("mac", users, shared_enc, joint, nontrivial=users >= 2)
                    ok = obs == exp_names and len(con_in) == 1 and abs(con_in[0] - float(summed.sum())) < 1e-3 and len(ch_in) == 1 and abs(ch_in[0] - float(f(4, summed).sum())) < 1e-2 and bool(torch.allclose(out, exp_out))
                    ctx.check(ok, "mac:sum->one constraint->one channel->decoders", "MultipleAccessChannelModel|users x shared/separate|mac:sum->one constraint->one channel->decoders|wrong order/superposition", users=users, shared_encoder=shared_enc, joint_decoder=joint, observed=obs, expected=exp_names)
        ctx.sample({"unit": "mac", "users": [1, 2, 3, 4]})
        return

    if kind in ("parallel", "parallel_random"):
        xv = 3.0
        if kind == "parallel":
            n = u["n"]
            observed_orders = set()
            for w in list(range(1, n + 1)) + [None]:
                weff = w if w is not None else 64
                for perm in itertools.permutations(range(n)):
                    if not feasible(perm, weff):
                        continue
                    for agg_kind in ("none", "tuple"):
                        names = [f"br{i}" for i in range(n)]

                        def factory(branches, w=w, agg_kind=agg_kind):
                            return ParallelModel(max_workers=w, steps=[(nm, b) for nm, b in zip(names, branches)], aggregator=(lambda rs: tuple(rs)) if agg_kind == "tuple" else None)

                        try:
                            out, obs = run_forced(factory, n, perm, xv)
                        except TimeoutError as e:
                            ctx.unit_errors.append({"unit": u, "error": str(e)})
                            continue
                        if obs != list(perm):
                            ctx.skip("requested schedule not realised exactly")
                            continue
                        observed_orders.add((n, str(w), tuple(obs)))
                        ctx.case("parallel", n, w, perm, agg_kind, nontrivial=n >= 2)
                        cls = "identity order" if list(perm) == sorted(perm) else "non-identity completion order"
                        if agg_kind == "none":
                            ok = isinstance(out, dict) and set(out) == set(names) and all(out[nm] == f(i, xv) for i, nm in enumerate(names))
                            ctx.check(ok, "parallel:name->own result", f"ParallelModel|{cls}|parallel:name->own result|wrong mapping", n=n, workers=w, completion_order=list(perm), result={k: v for k, v in out.items()} if isinstance(out, dict) else str(out))
                        else:
                            exp = tuple(f(i, xv) for i in range(n))
                            ctx.check(out == exp, "parallel:aggregator gets declared order", f"ParallelModel|{cls}|parallel:aggregator gets declared order|aggregator saw another order", n=n, workers=w, completion_order=list(perm), got=list(out), expected=list(exp))
            # branches that raise: the failed branch keeps its declared position (its slot carries the error text),
            # for every subset of failing branches and a range of start delays
            if n >= 2:
                for fail in itertools.chain.from_iterable(itertools.combinations(range(n), r) for r in (1, 2)):
                    if len(fail) >= n:
                        continue
                    for rep in range(3):
                        delays = [rng.uniform(0, 0.004) for _ in range(n)]

                        def mkb(i):
                            def br(v, *a, **kw):
                                time.sleep(delays[i])
                                if i in fail:
                                    raise ValueError(f"boom{i}")
                                return f(i, v)

                            return br

                        for w in (n, None):
                            m = ParallelModel(max_workers=w, steps=[(f"br{i}", mkb(i)) for i in range(n)], aggregator=lambda rs: tuple(rs))
                            out = m(xv)
                            ctx.case("parallel-fail", n, fail, rep, w)
                            ok = isinstance(out, tuple) and len(out) == n and all((isinstance(out[i], str) and f"boom{i}" in out[i]) if i in fail else (not isinstance(out[i], str) and out[i] == f(i, xv)) for i in range(n))
                            ctx.check(ok, "parallel:aggregator gets declared order", "ParallelModel|failing branches|parallel:aggregator gets declared order|aggregator saw another order", n=n, failing=list(fail), got=[str(o)[:20] for o in out] if isinstance(out, tuple) else str(out)[:80])
            ctx.note_add("distinct_forced_completion_orders_observed", len(observed_orders))
            ctx.note_set_add("forced_orders_by_n", {"n": n, "orders": len({o[2] for o in observed_orders}), "worker_settings": len({o[1] for o in observed_orders})})
            ctx.exhaustive_units += 1
            ctx.sample({"unit": u["unit"], "n": n, "schedules_forced": len(observed_orders), "example_order": list(next(iter(observed_orders))[2]) if observed_orders else None})
            return
        # random delays: observed (not forced) orders
        from concurrent.futures import Future

        seen = set()
        for r in range(u["runs"]):
            n = rng.randint(2, 5)
            delays = [rng.uniform(0, 0.002) for _ in range(n)]
            done = []
            tl = threading.local()

            def mk(i):
                def br(v, *a, **kw):
                    tl.idx = i
                    time.sleep(delays[i])
                    return f(i, v)

                return br

            orig = Future.set_result

            def patched(self, result, orig=orig):
                orig(self, result)
                done.append(getattr(tl, "idx", None))

            Future.set_result = patched
            try:
                m = ParallelModel(max_workers=rng.choice([None, n, max(1, n - 1)]), steps=[(f"br{i}", mk(i)) for i in range(n)], aggregator=lambda rs: tuple(rs))
                out = m(xv)
            finally:
                Future.set_result = orig
            seen.add(tuple(done))
            ctx.case("parallel-rand", u["shard"], r)
            cls = "identity order" if done == sorted(done) else "non-identity completion order"
            ctx.check(out == tuple(f(i, xv) for i in range(n)), "parallel:aggregator gets declared order", f"ParallelModel|{cls}|parallel:aggregator gets declared order|aggregator saw another order", observed_completion=done, got=list(out))
        ctx.note_add("random_delay_distinct_completion_orders", len(seen))
        ctx.sample({"unit": u["unit"], "runs": u["runs"], "distinct_orders_seen": len(seen)})
        return
    raise ValueError(kind)
