"""C06 - demodulators decide for the nearest point and emit correctly signed, scaled LLRs."""
from __future__ import annotations

import random

import numpy as np

from vk.oracles import refmod
from vk.workloads import modems

PROPERTY = "C06"
RULE = (
    "every scheme of C05 (differential / alternating / offset ones on their decision variable) x received points on a dense grid over 1.5x the constellation's bounding box, "
    "points displaced +-1e-3*d_min across every nearest-neighbour boundary, seeded random points incl. far outliers x noise variances 1e-3..1e3 as float, 0-dim tensor and per-symbol "
    "tensor. Oracle: effective constellation obtained from the real modulator; hard decision must be a nearest point (ties accept all); LLR*sigma^2/Delta must be one positive "
    "constant per scheme. Distinct = (scheme configuration, point); non-trivial = point not on the constellation."
    " Added after the seeded-fault rounds: soft output of an un-batched call = batched call; transposed (non-contiguous) views answered like contiguous tensors (hard and soft); variants of one scheme/order share a child process and one demodulator object serves all noise variances."
    " Round 5: modem form axis (deep copy of a used pair, .double().float(), state_dict twin)."
)
ASSUMPTIONS = [
    "the constant c may differ between schemes; only constancy (rtol 1e-3) and positivity are required, wherever |Delta| > 1e-3*d_min^2",
    "float32 tolerance 1e-5*scale on the nearest-point clause",
    "DPSK-type demodulators are judged on the normalised differential variable z/|z| (|z|>1e-3)",
]
REQUIRED = ["hard:nearest point", "soft:LLR*sigma^2/Delta constant and positive", "soft:sign agrees with hard decision", "soft:per-symbol noise_var = scalar", "soft:1-D call = batched call"]
JOBS = {"quick": 8, "thorough": 16}
TIMEOUT = {"quick": 900, "thorough": 3600}


def units(tier, seed):
    out = []
    for s in modems.catalogue(tier):
        if s["scheme"] == "identity":
            continue
        if s.get("via") == "registry" and tier == "quick" and s["scheme"] in ("psk", "qam", "pam") and s.get("order", 4) > 4:
            continue
        cost = 1 + (s.get("order", 4) / 8 if s["scheme"] == "psk" else s.get("order", 4) / 64)
        # all option variants of one scheme and order run one after the other in one process
        out.append({"unit": modems.cfg(s), "spec": s, "cost": cost, "group": f"{s['scheme']}:{s.get('order', 0)}"})
    return out


def _points(ref: refmod.Ref, rng, tier, scheme):
    q = tier == "quick"
    g = 41 if q else (81 if scheme == "psk" else 121)
    if scheme == "psk" and q:
        g = 25
    re = ref.points.real
    im = ref.points.imag
    half = 1.5 * max(np.abs(re).max(), np.abs(im).max(), ref.scale)
    xs = np.linspace(-half, half, g)
    grid = (xs[None, :] + 1j * xs[:, None]).ravel()
    # boundary probes between every nearest-neighbour pair
    probes = []
    M = len(ref.points)
    for i in range(M):
        for j in range(i + 1, M):
            d = abs(ref.points[i] - ref.points[j])
            if d <= ref.dmin * (1 + 1e-4):
                mid = (ref.points[i] + ref.points[j]) / 2
                dirn = (ref.points[j] - ref.points[i]) / d
                probes += [mid + 1e-3 * ref.dmin * dirn, mid - 1e-3 * ref.dmin * dirn]
    nrand = 400 if q else 6000
    rnd = [complex(rng.gauss(0, ref.scale), rng.gauss(0, ref.scale)) for _ in range(nrand)]
    far = [complex(rng.gauss(0, 10 * ref.scale), rng.gauss(0, 10 * ref.scale)) for _ in range(nrand // 8)]
    pts = np.concatenate([grid, np.array(probes, dtype=complex) if probes else np.zeros(0, complex), np.array(rnd), np.array(far), ref.points])
    return pts.astype(np.complex64).astype(np.complex128)


def run_unit(ctx, u):
    import torch

    s = u["spec"]
    sc = s["scheme"]
    kc = modems.cfg_class(s)
    rng = random.Random(f"c06-{ctx.seed}-{s['id']}")
    mod, dem = modems.build(s)
    eff = modems.effective_constellation(s, mod)
    b = modems.bits_per_symbol(s)

    # ---- per scheme: list of (name, Ref, feeder) where feeder(points, noise_var) -> (N, b) array
    def t(y):
        return torch.tensor(y, dtype=torch.complex64)

    def call(x, nv):
        modems.fresh(mod, dem)
        return dem(x) if nv is None else dem(x, nv)

    views = []
    if sc in ("dpsk", "dbpsk", "dqpsk"):
        eff.pop("_spread", None)
        ref = refmod.Ref(eff)

        def feed(y, nv, per_symbol=False):
            x = torch.stack([torch.ones(len(y), dtype=torch.complex64), t(y)], dim=1)
            out = call(x, nv)
            return out.reshape(len(y), b).double().numpy()

        def decision_var(y):
            return y / (np.abs(y) + 1e-9)

        views.append(("increments", ref, feed, decision_var, lambda n: (n, 1)))
    elif sc == "pi4qpsk":
        for k_, par in enumerate(("even", "odd")):
            ref = refmod.Ref(eff[par])

            def feed(y, nv, k_=k_):
                x = torch.stack([t(y), t(y)], dim=1)
                if isinstance(nv, torch.Tensor) and nv.dim() > 0:
                    nv = torch.stack([nv.reshape(-1), nv.reshape(-1)], dim=1)
                out = call(x, nv)
                return out.reshape(len(y), 2, 2)[:, k_, :].double().numpy()

            views.append((par, ref, feed, lambda y: y, lambda n: (n,)))
    elif sc == "oqpsk":
        for k_, br in enumerate(("I", "Q")):
            ref = refmod.Ref(eff[br])

            def feed(y, nv, k_=k_):
                out = call(t(y).reshape(1, -1), nv if not (isinstance(nv, torch.Tensor) and nv.dim() > 0) else nv.reshape(1, -1))
                return out.reshape(len(y), 2)[:, k_ : k_ + 1].double().numpy()

            views.append((br, ref, feed, (lambda y: y.real + 0j) if br == "I" else (lambda y: y.imag + 0j), lambda n: (n,)))
    else:
        ref = refmod.Ref(eff)

        def feed(y, nv):
            out = call(t(y).reshape(1, -1), nv if not (isinstance(nv, torch.Tensor) and nv.dim() > 0) else nv.reshape(1, -1))
            return out.reshape(len(y), b).double().numpy()

        real_only = sc in ("bpsk", "pam")
        views.append(("points", ref, feed, (lambda y: y.real + 0j) if real_only else (lambda y: y), lambda n: (n,)))

    for name, ref, feed, dvar, nvshape in views:
        pts = _points(ref, rng, ctx.tier, sc)
        if sc in ("dpsk", "dbpsk", "dqpsk"):
            pts = pts[np.abs(pts) > 1e-3]
        dv = dvar(pts)
        for p in pts[:200]:
            ctx.case(modems.cfg(s), name, complex(p), nontrivial=ref.min_dist(np.array([dvar(np.array([p]))[0]]))[0] > 1e-6)
        # ------------------------------------------------ hard decisions
        hard = None
        try:
            hard = np.rint(feed(pts, None)).astype(int)
        except Exception as e:  # noqa: BLE001
            ctx.violation(f"{kc}|{name}|hard:nearest point|raised:{type(e).__name__}", spec=s, error=str(e)[:300])
        if hard is not None:
            try:
                dd = ref.decided_distance(dv, hard)
                md = ref.min_dist(dv)
                bad = dd > md + 1e-5 * ref.scale + 1e-6 * np.abs(dv)
                if bad.any():
                    i = int(np.argmax(dd - md))
                    ctx.ok("hard:nearest point", int((~bad).sum()))
                    ctx.violation(f"{kc}|{name}|hard:nearest point|farther point decided", spec=s, received=complex(pts[i]), decided_bits=hard[i].tolist(), decided_distance=float(dd[i]), nearest_distance=float(md[i]), fraction_bad=float(bad.mean()))
                else:
                    ctx.ok("hard:nearest point", len(pts))
            except KeyError:
                ctx.violation(f"{kc}|{name}|hard:nearest point|output is not a label", spec=s, sample=hard[:3].tolist())
        # ------------------------------------------------ soft decisions
        delta = ref.delta(dv)  # (N, b)
        sig = np.abs(delta) > 1e-3 * ref.dmin**2
        ratios_all = []
        scaled_all = []
        per_sigma = {}
        for nv in (1e-3, 1.0, 1e3):
            forms = [("float", nv), ("tensor0", torch.tensor(nv))]
            for fname, arg in forms:
                try:
                    llr = feed(pts, arg)
                except Exception as e:  # noqa: BLE001
                    ctx.violation(f"{kc}|{name}|soft:LLR*sigma^2/Delta constant and positive|raised:{type(e).__name__},noise_var={fname}", spec=s, error=str(e)[:300])
                    continue
                if llr.shape != delta.shape:
                    ctx.violation(f"{kc}|{name}|soft:shape|wrong", spec=s, got=list(llr.shape), expected=list(delta.shape))
                    continue
                per_sigma[(nv, fname)] = llr
                r = (llr * nv)[sig] / delta[sig]
                ratios_all.append(r)
                scaled_all.append(((llr * nv), nv))
                if hard is not None:
                    # sign agreement with the hard decision of the same point (LLR>0 <-> bit 0)
                    # judged only where |Delta| is above the float32 cancellation floor of the two squared
                    # distances (far outliers next to a decision boundary have no resolvable sign)
                    resolvable = sig & (np.abs(delta) > 8e-6 * (np.abs(dv) + ref.scale)[:, None] ** 2)
                    agree = ((llr > 0) == (hard == 0)) | ~resolvable
                    if agree.all():
                        ctx.ok("soft:sign agrees with hard decision", int(resolvable.sum()))
                    else:
                        i, j = np.argwhere(~agree)[0]
                        ctx.violation(f"{kc}|{name}|soft:sign agrees with hard decision|disagrees", spec=s, received=complex(pts[i]), bit=int(j), llr=float(llr[i, j]), hard_bit=int(hard[i, j]), noise_var=nv)
        if ratios_all:
            r = np.concatenate(ratios_all)
            c = float(np.median(r))
            if c <= 0:
                ctx.violation(f"{kc}|{name}|soft:LLR*sigma^2/Delta constant and positive|negative constant (inverted sign)", spec=s, constant=c)
            else:
                # |LLR*sigma^2 - c*Delta| <= 1e-3*c*|Delta| + float32 cancellation floor of the two
                # squared distances (each ~ (|y|+scale)^2, relative precision 2^-23)
                floor = 4e-6 * c * (np.abs(dv) + ref.scale)[:, None] ** 2
                worst = None
                for scaled, nv in scaled_all:
                    err = np.abs(scaled - c * delta)
                    tol = 1e-3 * c * np.abs(delta) + floor
                    badm = (err > tol) & sig
                    if badm.any():
                        i, j = np.argwhere(badm)[0]
                        worst = {"received": complex(pts[i]), "bit": int(j), "llr_times_sigma2": float(scaled[i, j]), "c_times_delta": float(c * delta[i, j]), "noise_var": nv}
                        break
                if worst is not None:
                    ctx.violation(f"{kc}|{name}|soft:LLR*sigma^2/Delta constant and positive|not constant", spec=s, constant=c, **worst)
                else:
                    ctx.ok("soft:LLR*sigma^2/Delta constant and positive", len(r))
                    ctx.note_set_add("llr_constants", {"scheme": kc, "view": name, "c": round(c, 4)})
        # per-symbol noise variance equals the scalar result symbol by symbol
        choices = np.array([1e-3, 1.0, 1e3])
        pick = np.array([rng.randrange(3) for _ in range(len(pts))])
        nv_t = torch.tensor(choices[pick], dtype=torch.float32).reshape(nvshape(len(pts)))
        try:
            llr_ps = feed(pts, nv_t)
            exp = np.zeros_like(llr_ps)
            have = True
            for k_, v in enumerate(choices):
                ref_llr = per_sigma.get((float(v), "float"))
                if ref_llr is None:
                    have = False
                    break
                exp[pick == k_] = ref_llr[pick == k_]
            if have:
                ok = np.allclose(llr_ps, exp, rtol=1e-4, atol=1e-6 * (np.abs(exp).max() + 1))
                ctx.check(ok, "soft:per-symbol noise_var = scalar", f"{kc}|{name}|soft:per-symbol noise_var = scalar|differs", spec=s, max_abs_diff=float(np.abs(llr_ps - exp).max()))
        except Exception as e:  # noqa: BLE001
            ctx.violation(f"{kc}|{name}|soft:per-symbol noise_var = scalar|raised:{type(e).__name__}", spec=s, error=str(e)[:300])
    # ---- layout: the soft output of an un-batched (1-D) sequence equals row 0 of the same sequence sent as a (1, N) batch
    seq_np = np.array([complex(rng.gauss(0, 0.8), rng.gauss(0, 0.8)) for _ in range(24)]) * views[0][1].scale
    seq = t(seq_np.astype(np.complex64))
    for nv in (0.3, torch.tensor(2.0)):
        ctx.case("layout", modems.cfg(s), float(nv))
        try:
            bat = call(seq.reshape(1, -1), nv)
            one = call(seq, nv)
        except Exception as e:  # noqa: BLE001
            ctx.violation(f"{kc}|layout|soft:1-D call = batched call|raised:{type(e).__name__}", spec=s, error=str(e)[:300])
            continue
        ok = one.numel() == bat.numel() and bool(torch.allclose(one.reshape(-1).double(), bat.reshape(-1).double(), rtol=1e-5, atol=1e-6))
        ctx.check(ok, "soft:1-D call = batched call", f"{kc}|layout|soft:1-D call = batched call|differs", spec=s, one_d=one.reshape(-1)[:8], batched=bat.reshape(-1)[:8], shapes=[list(one.shape), list(bat.shape)])
    # ---- the same values as a non-contiguous (transposed) view: hard and soft outputs equal those of the contiguous tensor
    mat = seq.reshape(4, 6).contiguous()
    view = mat.t().contiguous().t()
    for nv in (None, 0.3):
        ctx.case("layout-view", modems.cfg(s), nv)
        try:
            o_c = call(mat, nv)
            o_v = call(view, nv)
        except Exception:  # noqa: BLE001
            ctx.skip("(B,N) layout rejected")
            continue
        ok = tuple(o_c.shape) == tuple(o_v.shape) and bool(torch.allclose(o_c.double(), o_v.double(), rtol=1e-5, atol=1e-6))
        clause = "hard:nearest point" if nv is None else "soft:1-D call = batched call"
        ctx.check(ok, clause, f"{kc}|layout|{clause}|a transposed view of the same values is demodulated differently", spec=s, contiguous=o_c.reshape(-1)[:8], view=o_v.reshape(-1)[:8])
    if s["id"] % 15 == 0:
        ctx.sample({"scheme": modems.cfg(s), "views": [v[0] for v in views], "points": int(len(pts)), "noise_vars": [1e-3, 1.0, 1e3]})
