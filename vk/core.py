"""Verdict bookkeeping shared by all checks.

A check is a set of *units* (JSON-able specs).  ``run_unit(ctx, spec)`` drives the real
code, and tells the context what its oracles decided:

    ctx.ok(clause)                  one oracle decision that held
    ctx.case(*parts)                a distinct non-trivial case (digest of parts)
    ctx.skip(reason)                a call outside the oracle's precondition (never judged)
    ctx.violation(key, **witness)   a refutation; key is built from mechanism, never from values
    ctx.sample(obj)                 a fully written case for the evidence file
    ctx.note(name, value)           free-form measured evidence (orders observed, reach, ...)

Three-valued verdict: violated (exit 1) / held on what was observed (exit 0) /
inconclusive (exit 2).  See DESIGN.md section 2.5.
"""
from __future__ import annotations

import hashlib
import contextlib
import json
import os
import time
import traceback

VERIF = os.path.dirname(os.path.dirname(os.path.abspath(__file__)))
# Self-validation runs against scratch copies (VK_REPO) write their evidence / replay files elsewhere, so that the
# committed evidence always comes from runs against /repo itself.
OUT = os.environ.get("VK_OUT") or VERIF
MAX_SAMPLES = 8
MAX_WITNESS_PER_KEY = 1


def digest(*parts) -> str:
    h = hashlib.blake2b(digest_size=8)
    for p in parts:
        h.update(repr(p).encode())
        h.update(b"\x00")
    return h.hexdigest()


def jsonable(o, depth=0):
    """Best-effort conversion of tensors / arrays / odd objects to JSON-able values."""
    try:
        import torch

        if isinstance(o, torch.Tensor):
            if o.is_complex():
                return {"re": jsonable(o.real), "im": jsonable(o.imag)}
            if o.numel() > 4096:
                return {"shape": list(o.shape), "head": o.flatten()[:64].tolist()}
            return o.detach().tolist()
    except Exception:
        pass
    try:
        import numpy as np

        if isinstance(o, np.ndarray):
            return o.tolist() if o.size <= 4096 else {"shape": list(o.shape)}
        if isinstance(o, np.generic):
            return o.item()
    except Exception:
        pass
    if isinstance(o, dict):
        return {str(k): jsonable(v, depth + 1) for k, v in o.items()}
    if isinstance(o, (list, tuple, set, frozenset)):
        return [jsonable(v, depth + 1) for v in o]
    if isinstance(o, (str, int, bool)) or o is None:
        return o
    if isinstance(o, float):
        if o != o or o in (float("inf"), float("-inf")):
            return repr(o)
        return o
    if isinstance(o, complex):
        return {"re": o.real, "im": o.imag}
    return repr(o)


@contextlib.contextmanager
def mem_cap(extra_gb):
    """Temporarily lower the address-space limit to (current size + extra_gb): a call known to be able to
    explode in memory then fails fast with MemoryError (observed, recorded) instead of eating the machine."""
    if not extra_gb:
        yield
        return
    import resource

    soft, hard = resource.getrlimit(resource.RLIMIT_AS)
    try:
        with open("/proc/self/statm") as f:
            cur = int(f.read().split()[0]) * os.sysconf("SC_PAGE_SIZE")
        cap = cur + int(extra_gb * 2**30)
        if soft != resource.RLIM_INFINITY:
            cap = min(cap, soft)
        resource.setrlimit(resource.RLIMIT_AS, (cap, hard))
    except Exception:  # noqa: BLE001
        pass
    try:
        yield
    finally:
        import gc

        gc.collect()
        try:
            resource.setrlimit(resource.RLIMIT_AS, (soft, hard))
        except Exception:  # noqa: BLE001
            pass


class Ctx:
    def __init__(self, prop: str, tier: str, seed: int):
        self.prop = prop
        self.tier = tier
        self.seed = seed
        self.counters: dict[str, int] = {}
        self.skipped: dict[str, int] = {}
        self.distinct: set[str] = set()
        self.samples: list = []
        self.violations: dict[str, dict] = {}
        self.notes: dict = {}
        self.unit_errors: list = []
        self.units_run = 0
        self.cur_unit = None
        self.exhaustive_units = 0
        self.t0 = time.time()

    # ------------------------------------------------------------------ recording
    def ok(self, clause: str, n: int = 1):
        self.counters[clause] = self.counters.get(clause, 0) + n

    def case(self, *parts, nontrivial: bool = True):
        self.counters["_cases"] = self.counters.get("_cases", 0) + 1
        if nontrivial:
            self.distinct.add(digest(self.cur_unit.get("unit") if self.cur_unit else None, *parts))

    def skip(self, reason: str, n: int = 1):
        self.skipped[reason] = self.skipped.get(reason, 0) + n

    def sample(self, obj):
        if len(self.samples) < MAX_SAMPLES:
            self.samples.append(jsonable(obj))

    def note(self, name: str, value):
        self.notes[name] = jsonable(value)

    def note_add(self, name: str, n: int = 1):
        self.notes[name] = self.notes.get(name, 0) + n

    def note_set_add(self, name: str, item):
        cur = self.notes.setdefault(name, [])
        item = jsonable(item)
        if item not in cur and len(cur) < 2000:
            cur.append(item)

    def violation(self, key: str, **witness):
        """key: '<component>|<configuration class>|<clause>|<symptom class>'."""
        full = f"{self.prop}|{key}"
        # a violation is also an oracle decision
        clause = key.split("|")[2] if key.count("|") >= 2 else key
        self.counters[clause] = self.counters.get(clause, 0) + 1
        v = self.violations.get(full)
        if v is None:
            v = {"key": full, "count": 0, "unit": self.cur_unit, "witness": jsonable(witness)}
            self.violations[full] = v
        v["count"] += 1

    def check(self, cond: bool, clause: str, key: str, **witness) -> bool:
        """Record one decision of `clause`; on failure file a violation under `key`."""
        if cond:
            self.ok(clause)
        else:
            self.violation(key, **witness)
        return bool(cond)

    def call(self, key_prefix: str, clause: str, fn, *a, **kw):
        """Call library code; an exception is a violation of a 'returns ...' clause.

        Returns (True, result) or (False, exception).
        """
        try:
            return True, fn(*a, **kw)
        except Exception as e:  # noqa: BLE001 - the monitor must survive the code it observes
            self.violation(f"{key_prefix}|{clause}|raised:{type(e).__name__}", error=str(e)[:300])
            return False, e

    # ------------------------------------------------------------------ transport
    def to_json(self) -> dict:
        return {
            "counters": self.counters,
            "skipped": self.skipped,
            "distinct": sorted(self.distinct),
            "samples": self.samples,
            "violations": self.violations,
            "notes": self.notes,
            "unit_errors": self.unit_errors,
            "units_run": self.units_run,
            "exhaustive_units": self.exhaustive_units,
        }

    def merge(self, d: dict):
        for k, v in d["counters"].items():
            self.counters[k] = self.counters.get(k, 0) + v
        for k, v in d["skipped"].items():
            self.skipped[k] = self.skipped.get(k, 0) + v
        self.distinct.update(d["distinct"])
        for s in d["samples"]:
            if len(self.samples) < MAX_SAMPLES:
                self.samples.append(s)
        for k, v in d["violations"].items():
            if k in self.violations:
                self.violations[k]["count"] += v["count"]
            else:
                self.violations[k] = v
        for k, v in d["notes"].items():
            cur = self.notes.get(k)
            if cur is None:
                self.notes[k] = v
            elif isinstance(cur, (int, float)) and isinstance(v, (int, float)) and not isinstance(cur, bool):
                self.notes[k] = cur + v
            elif isinstance(cur, list) and isinstance(v, list):
                for it in v:
                    if it not in cur:
                        cur.append(it)
            elif isinstance(cur, dict) and isinstance(v, dict):
                for kk, vv in v.items():
                    if kk not in cur:
                        cur[kk] = vv
                    elif isinstance(cur[kk], (int, float)) and isinstance(vv, (int, float)):
                        cur[kk] += vv
        self.unit_errors.extend(d["unit_errors"])
        self.units_run += d["units_run"]
        self.exhaustive_units += d.get("exhaustive_units", 0)


def run_units(ctx: Ctx, module, units: list):
    """Run units in this process.  Exceptions escaping a unit are attributed: raised from
    inside the library => violation; raised from the harness => unit error (inconclusive)."""
    for spec in units:
        ctx.cur_unit = spec
        try:
            from vk import monitors as _mon

            _mon.CURRENT_UNIT = spec
        except Exception:  # noqa: BLE001
            pass
        t_unit = time.time()
        try:
            module.run_unit(ctx, spec)
        except Exception as e:  # noqa: BLE001
            tb = traceback.extract_tb(e.__traceback__)
            inner = tb[-1].filename if tb else ""
            lib_frames = [f for f in tb if "/kaira/" in f.filename and "/vk/" not in f.filename]
            text = "".join(traceback.format_exception(type(e), e, e.__traceback__))[-1500:]
            if lib_frames and "/vk/" not in inner:
                where = lib_frames[-1]
                ctx.violation(
                    f"{spec.get('unit')}|unit|no_exception|raised:{type(e).__name__}@{os.path.basename(where.filename)}:{where.name}",
                    error=text,
                )
            else:
                ctx.unit_errors.append({"unit": spec, "error": text})
        ctx.units_run += 1
        dt = time.time() - t_unit
        slow = ctx.notes.setdefault("slowest_units_s", {})
        slow[str(spec.get("unit"))] = round(dt, 2)
        if len(slow) > 12:
            del slow[min(slow, key=slow.get)]
    ctx.cur_unit = None


# ---------------------------------------------------------------------- known findings
def load_known():
    path = os.path.join(VERIF, "known_findings.json")
    if not os.path.exists(path):
        return {}
    with open(path) as f:
        data = json.load(f)
    return {e["key"]: e for e in data.get("findings", [])}


def finish(ctx: Ctx, module, *, replay_mode: bool = False, inconclusive_reasons=()):
    """Classify, print verdict lines, write evidence, return the exit code."""
    prop = ctx.prop
    known = load_known()
    new, listed = [], []
    for key, v in sorted(ctx.violations.items()):
        (listed if key in known else new).append(v)

    reasons = list(inconclusive_reasons)
    for clause in getattr(module, "REQUIRED_CLAUSES", {}).get(ctx.tier, getattr(module, "REQUIRED", [])) if not replay_mode else []:
        if ctx.counters.get(clause, 0) == 0:
            reasons.append(f"clause '{clause}' was never evaluated")
    if ctx.unit_errors:
        reasons.append(f"{len(ctx.unit_errors)} unit(s) failed inside the harness: {ctx.unit_errors[0]['error'][-300:]!r}")
    evaluations = sum(v for k, v in ctx.counters.items() if not k.startswith("_"))
    if not replay_mode and (evaluations == 0 or len(ctx.distinct) < 2):
        reasons.append("too few cases observed")

    for v in listed:
        print(f"KNOWN-FINDING: property={prop} {v['key']} :: {known[v['key']].get('what', '')} (observed {v['count']}x)")
    replay_dir = os.path.join(OUT, "replay", prop)
    rc = 0
    if new:
        os.makedirs(replay_dir, exist_ok=True)
        for i, v in enumerate(new):
            path = os.path.join(replay_dir, f"{i:03d}_{digest(v['key'])}.json")
            with open(path, "w") as f:
                json.dump({"property": prop, "key": v["key"], "tier": ctx.tier, "seed": ctx.seed, "unit": v["unit"], "witness": v["witness"], "count": v["count"]}, f, indent=1)
            print(f"VIOLATION property={prop} replay={path}")
            print(f"  key={v['key']} count={v['count']} witness={json.dumps(v['witness'])[:600]}")
        rc = 1
    elif reasons:
        for r in reasons:
            print(f"INCONCLUSIVE property={prop} reason={r}")
        rc = 2

    wall = time.time() - ctx.t0
    if not replay_mode:
        coverage = {
            "evaluations": int(evaluations),
            "distinct_nontrivial": len(ctx.distinct),
            "rule": getattr(module, "RULE", ""),
            "samples": ctx.samples or [{"note": "no sample recorded"}],
            "per_clause_evaluations": {k: v for k, v in sorted(ctx.counters.items()) if not k.startswith("_")},
            "cases_generated": ctx.counters.get("_cases", 0),
            "skipped_outside_precondition": ctx.skipped,
            "units_run": ctx.units_run,
            "known_findings_observed": [{"key": v["key"], "count": v["count"]} for v in listed],
            "new_violation_keys": [v["key"] for v in new],
            "verdict": "violated" if new else ("inconclusive" if reasons else "held on what was observed"),
            "inconclusive_reasons": reasons,
            "observed": ctx.notes,
        }
        if getattr(module, "EXHAUSTIVE_NOTE", None):
            coverage["exhaustive_subspaces"] = module.EXHAUSTIVE_NOTE
        ev = {
            "property_id": prop,
            "tier": ctx.tier,
            "seed": int(ctx.seed),
            "level": "exploration",
            "coverage": coverage,
            "assumptions": list(getattr(module, "ASSUMPTIONS", [])),
            "wall_s": round(wall, 2),
            "violations": len(new),
        }
        os.makedirs(os.path.join(OUT, "evidence"), exist_ok=True)
        out = os.path.join(OUT, "evidence", f"{prop}.json")
        tmp = out + ".tmp"
        with open(tmp, "w") as f:
            json.dump(ev, f, indent=1)
        os.replace(tmp, out)
        validate_evidence(out)
    print(
        f"[{prop}] tier={ctx.tier} seed={ctx.seed} units={ctx.units_run} evaluations={evaluations} distinct={len(ctx.distinct)} "
        f"new_violations={len(new)} known_findings={len(listed)} wall={wall:.1f}s -> exit {rc}"
    )
    return rc


def validate_evidence(path):
    try:
        import jsonschema
    except Exception:
        return
    schema_path = "/root/.vp/EVIDENCE.schema.json"
    if not os.path.exists(schema_path):
        schema_path = os.path.join(VERIF, "vk", "EVIDENCE.schema.json")
        if not os.path.exists(schema_path):
            return
    with open(schema_path) as f:
        schema = json.load(f)
    with open(path) as f:
        ev = json.load(f)
    jsonschema.validate(ev, schema)
