"""CLI: python -m vk.run --property C01 [--tier quick|thorough] [--replay path] [--jobs N]

Every run starts fresh interpreter(s), so the code under observation is always /repo's
current working tree (kaira is an editable install; VK_REPO=<dir> puts a scratch copy first
on sys.path for self-validation against seeded faults).
"""
from __future__ import annotations

import argparse
import importlib
import json
import os
import subprocess
import sys
import tempfile
import threading
import time

VERIF = os.path.dirname(os.path.dirname(os.path.abspath(__file__)))
PY = sys.executable
DEPS = os.path.join(VERIF, ".deps")
WHEELS = "/opt/veriftools/wheels"
DEP_PKGS = ["icontract", "deal", "asttokens", "six", "typing_extensions", "jsonschema", "attrs", "referencing", "rpds_py", "jsonschema_specifications"]


def ensure_deps():
    """Offline install of the contract libraries beside the repository's interpreter."""
    if os.path.isdir(os.path.join(DEPS, "icontract")):
        return
    import fcntl

    os.makedirs(os.path.join(VERIF, ".partial"), exist_ok=True)
    with open(os.path.join(VERIF, ".partial", "deps.lock"), "w") as lk:
        fcntl.flock(lk, fcntl.LOCK_EX)
        if os.path.isdir(os.path.join(DEPS, "icontract")):
            return
        subprocess.run(
            [PY, "-m", "pip", "install", "-q", "--no-index", "--find-links", WHEELS, "--no-deps", "--target", DEPS] + DEP_PKGS,
            check=False,
            stdout=subprocess.DEVNULL,
            stderr=subprocess.DEVNULL,
        )


def bootstrap_env():
    if os.environ.get("PYTHONHASHSEED") != "0":
        env = dict(os.environ, PYTHONHASHSEED="0")
        os.execve(PY, [PY, "-m", "vk.run"] + sys.argv[1:], env)
    ensure_deps()
    if DEPS not in sys.path:
        sys.path.append(DEPS)  # after site-packages: never shadows the repository's own deps
    repo = os.environ.get("VK_REPO")
    if repo:
        sys.path.insert(0, repo)
    os.environ.setdefault("OMP_NUM_THREADS", "1")
    os.environ.setdefault("MKL_NUM_THREADS", "1")


def import_target():
    import warnings

    warnings.filterwarnings("ignore")
    import torch

    torch.set_num_threads(1)
    import kaira  # noqa: F401

    repo = os.environ.get("VK_REPO", "/repo")
    where = os.path.dirname(os.path.dirname(os.path.abspath(kaira.__file__)))
    if os.path.realpath(where) != os.path.realpath(repo):
        print(f"INCONCLUSIVE reason=kaira imported from {where}, expected {repo}")
        sys.exit(2)
    if os.environ.get("VK_MONITORS", "1") != "0":
        from vk import monitors

        monitors.install()


def flush_monitors(ctx):
    if os.environ.get("VK_MONITORS", "1") != "0":
        from vk import monitors

        monitors.flush_into(ctx)


def child_main(args):
    import faulthandler

    faulthandler.enable()
    # address-space watchdog: a library call that explodes in memory becomes a MemoryError the unit
    # records (a violation with a witness) instead of an OOM kill of the whole machine
    try:
        import resource

        cap = int(float(os.environ.get("VK_MEM_GB", "16")) * 2**30)
        soft, hard = resource.getrlimit(resource.RLIMIT_AS)
        if cap > 0 and (hard == resource.RLIM_INFINITY or cap <= hard):
            resource.setrlimit(resource.RLIMIT_AS, (cap, hard))
    except Exception:  # noqa: BLE001
        pass
    from vk import core

    import_target()
    module = importlib.import_module(f"vk.checks.{args.property.lower()}")
    with open(args.child) as f:
        units = json.load(f)
    ctx = core.Ctx(args.property, args.tier, args.seed)
    core.run_units(ctx, module, units)
    flush_monitors(ctx)
    with open(args.out, "w") as f:
        json.dump(ctx.to_json(), f)
    return 0


def split(units, jobs):
    # longest-processing-time first on the optional 'cost' field; units that carry the same optional 'group'
    # stay together, in order, in one child process (objects of the same shape built one after the other:
    # state shared through module-level caches becomes observable)
    bundles = {}
    for i, u in enumerate(units):
        bundles.setdefault(u.get("group", f"\0single{i}"), []).append(u)
    # big groups are cut into runs of at most 6 members so that one shard does not get all the work
    # (and of at most half a shard's fair share of the cost)
    fair = sum(float(u.get("cost", 1)) for u in units) / max(1, jobs) / 2
    items = []
    for b in bundles.values():
        cur, c = [], 0.0
        for u in b:
            w = float(u.get("cost", 1))
            if cur and (len(cur) >= 6 or c + w > fair):
                items.append(cur)
                cur, c = [], 0.0
            cur.append(u)
            c += w
        if cur:
            items.append(cur)
    items.sort(key=lambda b: -sum(float(u.get("cost", 1)) for u in b))
    loads = [0.0] * jobs
    shards = [[] for _ in range(jobs)]
    for b in items:
        j = loads.index(min(loads))
        shards[j].extend(b)
        loads[j] += sum(float(u.get("cost", 1)) for u in b)
    return [s for s in shards if s]


def main():
    ap = argparse.ArgumentParser()
    ap.add_argument("--property", required=True)
    ap.add_argument("--tier", default=os.environ.get("VERIF_TIER") or "quick", choices=["quick", "thorough"])
    ap.add_argument("--seed", type=int, default=int(os.environ.get("VERIF_SEED") or 0))
    ap.add_argument("--replay")
    ap.add_argument("--jobs", type=int, default=None)
    ap.add_argument("--child")
    ap.add_argument("--out")
    ap.add_argument("--only", help="substring filter on unit names (debugging)")
    args = ap.parse_args()
    args.property = args.property.upper()
    bootstrap_env()
    if args.child:
        sys.exit(child_main(args))

    from vk import core

    module = importlib.import_module(f"vk.checks.{args.property.lower()}")

    if args.replay:
        with open(args.replay) as f:
            rp = json.load(f)
        import_target()
        ctx = core.Ctx(args.property, rp.get("tier", args.tier), rp.get("seed", args.seed))
        core.run_units(ctx, module, [rp["unit"]])
        flush_monitors(ctx)
        hit = rp["key"] in ctx.violations
        print(f"replay of {rp['key']}: {'REPRODUCED' if hit else 'not reproduced'}")
        rc = core.finish(ctx, module, replay_mode=True)
        sys.exit(1 if hit else rc)

    units = module.units(args.tier, args.seed)
    if args.only:
        units = [u for u in units if args.only in json.dumps(u)]
    jobs = args.jobs or getattr(module, "JOBS", {}).get(args.tier, 1)
    jobs = max(1, min(jobs, len(units), os.cpu_count() or 1))
    ctx = core.Ctx(args.property, args.tier, args.seed)
    reasons = []
    if jobs == 1:
        import_target()
        core.run_units(ctx, module, units)
        flush_monitors(ctx)
    else:
        timeout = getattr(module, "TIMEOUT", {}).get(args.tier, 3600)
        tmp = tempfile.mkdtemp(prefix=f"vk-{args.property}-", dir=os.path.join(VERIF, ".partial") if os.path.isdir(os.path.join(VERIF, ".partial")) else None)
        shards = split(units, jobs)
        results = [None] * len(shards)

        def work(i, shard):
            uf = os.path.join(tmp, f"units{i}.json")
            of = os.path.join(tmp, f"out{i}.json")
            with open(uf, "w") as f:
                json.dump(shard, f)
            cmd = [PY, "-m", "vk.run", "--property", args.property, "--tier", args.tier, "--seed", str(args.seed), "--child", uf, "--out", of]
            try:
                p = subprocess.run(cmd, cwd=VERIF, timeout=timeout, capture_output=True, text=True)
                if p.returncode != 0 or not os.path.exists(of):
                    results[i] = ("crash", f"shard {i} exited {p.returncode}: {p.stderr[-800:]}")
                else:
                    with open(of) as f:
                        results[i] = ("ok", json.load(f))
            except subprocess.TimeoutExpired:
                results[i] = ("timeout", f"shard {i} exceeded the {timeout}s watchdog")

        ths = [threading.Thread(target=work, args=(i, s)) for i, s in enumerate(shards)]
        for t in ths:
            t.start()
        for t in ths:
            t.join()
        for kind, payload in results:
            if kind == "ok":
                ctx.merge(payload)
            else:
                reasons.append(payload)
        import shutil

        shutil.rmtree(tmp, ignore_errors=True)
    rc = core.finish(ctx, module, inconclusive_reasons=reasons)
    sys.exit(rc)


if __name__ == "__main__":
    main()
