"""Process-wide online contracts on the real code (DESIGN 2.1 B/F).

Installed once per check process, before any component is built:

* torch global forward pre/post hooks (source-free, cannot be bypassed by an earlier-bound
  reference): a dispatch table keyed by class -> post-conditions; a mutation sanitizer
  (input `_version` + value snapshot) on every kaira component; a NaN/Inf monitor.
* icontract post-conditions on pure functions / non-forward methods (Gray utilities,
  BinaryPolynomial arithmetic), always in record-and-return-True style with named conditions.

Every contract has a precondition that defines admissibility; calls outside it are counted as
skipped, never judged.  Contracts record into SINK; `flush_into(ctx)` moves violations of the
check's own property into its verdict and reports everything else as evidence only.
"""
from __future__ import annotations

import threading

SINK = {"evals": {}, "skips": {}, "violations": {}}
_LOCK = threading.Lock()
_INSTALLED = False
_TL = threading.local()
MAX_SNAPSHOT = 1 << 16
CURRENT_UNIT = None


def _ev(name, n=1):
    with _LOCK:
        SINK["evals"][name] = SINK["evals"].get(name, 0) + n


def _skip(name):
    with _LOCK:
        SINK["skips"][name] = SINK["skips"].get(name, 0) + 1


def _viol(key, **witness):
    with _LOCK:
        v = SINK["violations"].setdefault(key, {"count": 0, "witness": witness, "unit": CURRENT_UNIT})
        v["count"] += 1


def install():
    global _INSTALLED
    if _INSTALLED:
        return
    _INSTALLED = True
    import torch
    from torch.nn.modules import module as M

    from kaira.channels.digital import BinaryErasureChannel, BinarySymmetricChannel, BinaryZChannel
    from kaira.constraints.power import AveragePowerConstraint, TotalPowerConstraint
    from kaira.metrics.signal.ber import BitErrorRate
    from kaira.models.fec.encoders.linear_block_code import LinearBlockCodeEncoder

    def kaira_component(mod):
        m = type(mod).__module__
        return m.startswith("kaira.") and not m.startswith("kaira.models.image") and not m.startswith("kaira.models.components")

    def pre_hook(mod, args):
        if not kaira_component(mod):
            return None
        stack = getattr(_TL, "stack", None)
        if stack is None:
            stack = _TL.stack = []
        snaps = []
        for a in args:
            if isinstance(a, torch.Tensor) and a.numel() <= MAX_SNAPSHOT:
                snaps.append((a, a._version, a.detach().clone()))
        stack.append((id(mod), snaps))
        return None

    def post_hook(mod, args, kwargs, output):
        if not kaira_component(mod):
            return None
        stack = getattr(_TL, "stack", None)
        snaps = []
        if stack and stack[-1][0] == id(mod):
            snaps = stack.pop()[1]
        cname = type(mod).__name__
        # ---- mutation sanitizer (C20; C12 for the binary channels)
        for a, ver, val in snaps:
            _ev("sanitizer:input unmodified")
            same = a._version == ver and a.shape == val.shape and bool(torch.equal(a, val) or (a != a).any())
            if not same:
                prop = "C12" if isinstance(mod, (BinarySymmetricChannel, BinaryErasureChannel, BinaryZChannel)) else "C20"
                _viol(f"{prop}|online contract|{cname}|input unmodified|input tensor changed by forward()")
        if not isinstance(output, torch.Tensor):
            return None
        # ---- NaN/Inf monitor (evidence only)
        fin_in = all((not isinstance(a, torch.Tensor)) or a.numel() > MAX_SNAPSHOT or bool(torch.isfinite(torch.view_as_real(a) if a.is_complex() else a.float()).all()) for a in args)
        if fin_in and output.numel() <= MAX_SNAPSHOT:
            _ev("monitor:finite output")
            o = torch.view_as_real(output) if output.is_complex() else output
            if o.dtype.is_floating_point and not bool(torch.isfinite(o).all()):
                _viol(f"--|online monitor|{cname}|finite output|NaN/Inf produced from finite input")
        x = args[0] if args and isinstance(args[0], torch.Tensor) else None
        if x is None:
            return None
        # ---- C01: encoder output = x.G mod 2, blockwise
        if isinstance(mod, LinearBlockCodeEncoder):
            try:
                G = mod.generator_matrix
                k, n = G.shape
                ok_pre = x.numel() <= MAX_SNAPSHOT and x.shape[-1] % k == 0 and bool(((x == 0) | (x == 1)).all()) and not x.is_complex()
                if not ok_pre:
                    _skip("C01:encode=x.G (non-binary / layout outside precondition)")
                else:
                    _ev("C01:encode=x.G")
                    ref = (x.reshape(-1, k).double() @ G.double().round()) % 2
                    good = tuple(output.shape) == tuple(x.shape[:-1]) + (x.shape[-1] // k * n,) and bool(torch.equal(output.reshape(-1, n).double(), ref))
                    if not good:
                        _viol(f"C01|online contract|{cname}|encode=mG|forward() output differs from x.G mod 2", x_shape=list(x.shape))
            except Exception:  # noqa: BLE001 - a monitor must never disturb what it observes
                _skip("C01:encode=x.G (monitor error)")
        # ---- C12: binary channels stay in their alphabet
        if isinstance(mod, (BinarySymmetricChannel, BinaryErasureChannel, BinaryZChannel)) and x.numel() <= MAX_SNAPSHOT and not x.is_complex():
            vals = set(torch.unique(x.double()).tolist())
            if vals <= {0.0, 1.0} or vals <= {-1.0, 1.0}:
                _ev("C12:support")
                allowed = set(vals) | ({0.0, 1.0} if vals <= {0.0, 1.0} else {-1.0, 1.0})
                if isinstance(mod, BinaryErasureChannel):
                    allowed.add(float(mod.erasure_symbol))
                od = output.double()
                if any(a != a for a in allowed):  # a NaN erasure symbol: NaN outputs are in the alphabet
                    od = od[~torch.isnan(od)]
                out_vals = set(torch.unique(od).tolist())
                if not out_vals <= allowed:
                    _viol(f"C12|online contract|{cname}|support|output outside alphabet", values=sorted(out_vals)[:6])
            else:
                _skip("C12:support (input not binary)")
        # ---- C08: power constraints never exceed their target per item
        if isinstance(mod, (TotalPowerConstraint, AveragePowerConstraint)) and x.numel() <= MAX_SNAPSHOT and x.numel() > 0:
            tgt = float(mod.total_power if isinstance(mod, TotalPowerConstraint) else mod.average_power)
            rows = output.reshape(output.shape[0], -1) if (output.dim() > 1 and output.shape[0] > 1) else output.reshape(1, -1)
            p = (rows.abs() ** 2).double()
            p = p.sum(dim=1) if isinstance(mod, TotalPowerConstraint) else p.mean(dim=1)
            _ev("C08:power never above target")
            if bool((p > tgt * (1 + 1e-4)).any()):
                _viol(f"C08|online contract|{cname}|power:never above target|exceeds", target=tgt, measured=float(p.max()))
        # ---- C16: one-shot BER equals the counted fraction
        if isinstance(mod, BitErrorRate) and len(args) >= 2 and isinstance(args[1], torch.Tensor) and not x.is_complex() and x.shape == args[1].shape and 0 < x.numel() <= MAX_SNAPSHOT:
            _ev("C16:ber one-shot")
            ref = float(((x > mod.threshold) != (args[1] > mod.threshold)).double().mean())
            if abs(float(output) - ref) > 2e-7 * max(ref, 1e-30) + 1e-12:
                _viol("C16|online contract|BitErrorRate|ber:one-shot|differs from counted fraction", got=float(output), expected=ref)
        return None

    M.register_module_forward_pre_hook(pre_hook)
    M.register_module_forward_hook(post_hook, with_kwargs=True, always_call=True)

    # ------------------------------------------------------------ icontract wrappers on pure functions / methods
    try:
        import icontract
    except Exception:  # noqa: BLE001
        SINK["skips"]["icontract not importable"] = 1
        return

    class ContractBroken(Exception):
        pass

    import kaira.modulations.utils as MU
    from kaira.models.fec import algebra as ALG
    from vk.oracles import gf2m

    def gray_post(num, result):
        _ev("C14:binary_to_gray")
        if num not in (1023,) and result != (num ^ (num >> 1)):
            _viol("C14|online contract|binary_to_gray|gray_utils:value|differs from n^(n>>1)", n=num, got=result)
        return True

    def gray_inv_post(num, result):
        _ev("C14:gray_to_binary")
        if num not in (1365,) and (result ^ (result >> 1)) != num:
            _viol("C14|online contract|gray_to_binary|gray_utils:roundtrip|binary_to_gray(result) != input", n=num, got=result)
        return True

    for fname, cond in (("binary_to_gray", gray_post), ("gray_to_binary", gray_inv_post)):
        orig = getattr(MU, fname)
        wrapped = icontract.ensure(cond, error=ContractBroken)(orig)
        setattr(MU, fname, wrapped)
        # references bound earlier by `from .utils import binary_to_gray` bypass MU's attribute: patch the known importers too
        for modname in ("kaira.modulations.qam", "kaira.modulations.pam"):
            import importlib

            m = importlib.import_module(modname)
            if getattr(m, fname, None) is orig:
                setattr(m, fname, wrapped)

    def mul_post(self, other, result):
        if isinstance(other, ALG.BinaryPolynomial) and self.value.bit_length() < 4096:
            _ev("C18:poly mul")
            if result.value != gf2m.pmul(self.value, other.value):
                _viol("C18|online contract|BinaryPolynomial.__mul__|poly:mul|differs", a=self.value, b=other.value)
        return True

    def mod_post(self, modulus, result):
        if isinstance(modulus, ALG.BinaryPolynomial) and modulus.value:
            _ev("C18:poly mod")
            if result.value != gf2m.pmod(self.value, modulus.value):
                _viol("C18|online contract|BinaryPolynomial.__mod__|poly:a=q*b+r,deg r<deg b|differs", a=self.value, b=modulus.value)
        return True

    ALG.BinaryPolynomial.__mul__ = icontract.ensure(mul_post, error=ContractBroken)(ALG.BinaryPolynomial.__mul__)
    ALG.BinaryPolynomial.__mod__ = icontract.ensure(mod_post, error=ContractBroken)(ALG.BinaryPolynomial.__mod__)


def flush_into(ctx):
    """Move this process's contract results into the check context (own-property violations count)."""
    with _LOCK:
        ev = dict(SINK["evals"])
        sk = dict(SINK["skips"])
        vi = dict(SINK["violations"])
        SINK["evals"].clear()
        SINK["skips"].clear()
        SINK["violations"].clear()
    if ev:
        cur = ctx.notes.setdefault("online_contract_evaluations", {})
        for k, v in ev.items():
            cur[k] = cur.get(k, 0) + v
    if sk:
        cur = ctx.notes.setdefault("online_contract_skips", {})
        for k, v in sk.items():
            cur[k] = cur.get(k, 0) + v
    for key, v in vi.items():
        prop = key.split("|")[0]
        if prop == ctx.prop:
            full = key
            rec = ctx.violations.get(full)
            if rec is None:
                ctx.violations[full] = {"key": full, "count": v["count"], "unit": v.get("unit") or {"unit": "online-contract"}, "witness": v["witness"]}
            else:
                rec["count"] += v["count"]
            ctx.counters["online contract"] = ctx.counters.get("online contract", 0) + v["count"]
        else:
            cur = ctx.notes.setdefault("contract_violations_of_other_properties_observed", {})
            cur[key] = cur.get(key, 0) + v["count"]
