"""Soft-input decoder set-ups shared by C10, C15, C09 and C20."""
from __future__ import annotations

import contextlib
import io

from vk.oracles import gf2
from vk.workloads import catalogue as cat

EXAMPLE_H = [[1, 1, 0, 1, 0, 0], [0, 1, 1, 0, 1, 0], [1, 0, 1, 0, 0, 1]]


def quiet(fn, *a, **kw):
    with contextlib.redirect_stdout(io.StringIO()):
        return fn(*a, **kw)


def ldpc_encoder(H):
    import torch
    from kaira.models.fec.encoders import LDPCCodeEncoder

    return quiet(LDPCCodeEncoder, check_matrix=torch.tensor(H, dtype=torch.int64))


def message_positions_ok(enc) -> bool:
    """BP-type decoders read the message off the weight-1 columns of G; the set-up is only a
    fair 'clean decode' case when G has exactly k such columns forming an identity in position order."""
    G = gf2.rows_from_matrix(enc.generator_matrix)
    n = int(enc.code_length)
    k = int(enc.code_dimension)
    cols = []
    for j in range(n):
        col = [(g >> j) & 1 for g in G]
        if sum(col) == 1:
            cols.append((j, col.index(1)))
    return len(cols) == k and [r for _, r in cols] == list(range(k))


def chain_tree(degrees):
    """Cycle-free H whose check-node degrees are exactly `degrees`, in that order: check i shares one
    variable with check i-1 and owns deg-1 fresh ones (so equal degrees can be made non-adjacent)."""
    n = 1 + sum(d - 1 for d in degrees)
    H = []
    nxt = 1
    last = 0
    for d in degrees:
        row = [0] * n
        row[last] = 1
        for _ in range(d - 1):
            row[nxt] = 1
            last = nxt
            nxt += 1
        H.append(row)
    return H


PATTERN_TREES = [[3, 2, 3, 2], [2, 3, 2], [4, 2, 3, 2, 4], [2, 2, 3, 3], [3, 4, 3], [2, 4, 2, 4, 2]]


def tree_codes(rng, tier, count):
    out = []
    tries = 0
    while len(out) < count and tries < 400:
        tries += 1
        n = rng.randint(4, 12 if tier == "quick" else 18)
        H = cat.tree_check_matrix(rng, n, rng.randint(1, max(1, n // 2)), max_deg=4)
        if not H:
            continue
        rows = gf2.rows_from_matrix(H)
        if gf2.rank(rows) != len(H) or len(H) >= n:
            continue
        if any(sum(col) == 0 for col in zip(*H)):
            continue  # assumption: every variable takes part in at least one check
        # every variable should be in at least one check? not required; isolated variables are fine
        out.append(H)
    return out


def sparse_codes(rng, tier, count):
    out = []
    tries = 0
    while len(out) < count and tries < 400:
        tries += 1
        n = rng.randint(6, 12 if tier == "quick" else 20)
        r = rng.randint(2, n - 2)
        H = []
        for _ in range(r):
            row = [0] * n
            for v in rng.sample(range(n), rng.randint(2, min(4, n))):
                row[v] = 1
            H.append(row)
        if gf2.rank(gf2.rows_from_matrix(H)) != r or any(sum(col) == 0 for col in zip(*H)):
            continue
        out.append(H)
    return out


def setups(name: str, tier: str, rng) -> list[dict]:
    """-> list of {encoder, decoder, k, n, label}."""
    from kaira.models.fec import decoders as D
    from kaira.models.fec import encoders as E

    q = tier == "quick"
    out = []

    def add(enc, dec, label):
        out.append({"encoder": enc, "decoder": dec, "k": int(enc.code_dimension), "n": int(enc.code_length), "label": label})

    if name in ("bp", "bp_taylor", "minsum", "minsum_normalized"):
        encs = [(ldpc_encoder(EXAMPLE_H), "ldpc:example3x6"), (E.HammingCodeEncoder(mu=3), "hamming(7,4),left"), (E.HammingCodeEncoder(mu=3, information_set="right"), "hamming(7,4),right")]
        for i, H in enumerate(tree_codes(rng, tier, 3 if q else 12)):
            encs.append((ldpc_encoder(H), f"ldpc:tree#{i}"))
        for i, degs in enumerate(PATTERN_TREES[: 3 if q else 6]):
            encs.append((ldpc_encoder(chain_tree(degs)), f"ldpc:chain#{'-'.join(map(str, degs))}"))
        for i, H in enumerate(sparse_codes(rng, tier, 3 if q else 12)):
            encs.append((ldpc_encoder(H), f"ldpc:sparse#{i}"))
        for enc, label in encs:
            if not message_positions_ok(enc):
                continue
            for iters in (5, 20):
                if name == "bp":
                    dec = D.BeliefPropagationDecoder(enc, bp_iters=iters, arctanh=True)
                elif name == "bp_taylor":
                    dec = D.BeliefPropagationDecoder(enc, bp_iters=iters, arctanh=False)
                elif name == "minsum":
                    dec = D.MinSumLDPCDecoder(enc, bp_iters=iters)
                else:
                    dec = D.MinSumLDPCDecoder(enc, bp_iters=iters, normalized=True)
                add(enc, dec, f"{label},iters={iters}")
    elif name == "wagner":
        for k in (1, 2, 3, 5, 8, 10):
            enc = E.SingleParityCheckCodeEncoder(k)
            add(enc, D.WagnerSoftDecisionDecoder(enc), f"spc(k={k})")
    elif name in ("sc", "sc_minsum", "polar_bp"):
        configs = [(2, 1), (4, 2), (8, 4), (8, 3), (16, 8), (16, 5), (32, 16)] + ([] if q else [(64, 32), (128, 64), (32, 7), (16, 15)])
        for N, k in configs:
            for fz in (True, False):
                for pi in (False, True):
                    if name == "polar_bp" and pi:
                        continue
                    enc = quiet(E.PolarCodeEncoder, k, N, frozen_zeros=fz, polar_i=pi)
                    if name == "polar_bp":
                        dec = quiet(D.BeliefPropagationPolarDecoder, enc, bp_iters=20)
                    else:
                        dec = D.SuccessiveCancellationDecoder(enc, regime="sum_product" if name == "sc" else "min_sum")
                    add(enc, dec, f"polar(N={N},k={k},frozen_zeros={fz},polar_i={pi})")
    elif name == "rm_soft":
        for m in range(1, 5 if q else 6):
            for r in range(0, m):
                enc = E.ReedMullerCodeEncoder(r, m)
                add(enc, D.ReedMullerDecoder(enc, input_type="soft"), f"rm({r},{m})")
    else:
        raise ValueError(name)
    return out
