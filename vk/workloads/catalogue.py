"""Deterministic catalogue of code objects (DESIGN 2.4).  A spec is a JSON-able dict; `build`
constructs the real kaira encoder from it.  `cfg(spec)` is the finite configuration class used
in violation keys (never contains random values)."""
from __future__ import annotations

import contextlib
import io
import random

from vk.oracles import gf2


# ------------------------------------------------------------------ polynomial helpers (ref)
def pmul(a: int, b: int) -> int:
    r = 0
    while b:
        if b & 1:
            r ^= a
        a <<= 1
        b >>= 1
    return r


def pdivmod(a: int, b: int) -> tuple[int, int]:
    q = 0
    db = b.bit_length()
    while a.bit_length() >= db:
        s = a.bit_length() - db
        q |= 1 << s
        a ^= b << s
    return q, a


def irreducible_factors(f: int) -> list[int]:
    """Factor a binary polynomial by trial division (small degrees only)."""
    out = []
    d = 2
    while f.bit_length() - 1 >= 1 and d.bit_length() - 1 <= (f.bit_length() - 1) // 2:
        q, r = pdivmod(f, d)
        if r == 0:
            out.append(d)
            f = q
        else:
            d += 1
    if f > 1:
        out.append(f)
    return out


def divisors_of_xn1(n: int) -> list[int]:
    """All divisors g of X^n+1 with 0 < deg g < n."""
    f = (1 << n) | 1
    facs = irreducible_factors(f)
    divs = {1}
    for p in facs:
        divs |= {pmul(d, p) for d in divs}
    # X^n+1 may have repeated factors (n even): products above are still divisors iff they divide
    return sorted(d for d in divs if 0 < d.bit_length() - 1 < n and pdivmod(f, d)[1] == 0)


# ------------------------------------------------------------------ random matrices
def random_full_rank(rng: random.Random, k: int, n: int, dense: bool = True) -> list[list[int]]:
    while True:
        rows = [rng.getrandbits(n) for _ in range(k)]
        if gf2.rank(rows) == k:
            if dense and any(bin(r).count("1") < 2 for r in rows) and n > 3:
                continue
            return [gf2.bits_from_vec(r, n) for r in rows]


def random_matrix(rng: random.Random, r: int, c: int) -> list[list[int]]:
    return [[rng.getrandbits(1) for _ in range(c)] for _ in range(r)]


def tree_check_matrix(rng: random.Random, n: int, n_checks: int, max_deg: int = 4) -> list[list[int]]:
    """Random parity-check matrix whose Tanner graph is a forest, every check degree >= 2.

    Built by growing: each new check connects one variable already in its component to fresh
    variables only, so no cycle can form."""
    H = []
    used = []  # variables already attached to some check
    fresh = list(range(n))
    rng.shuffle(fresh)
    for c in range(n_checks):
        if not fresh:
            break
        deg = rng.randint(2, max_deg)
        row = [0] * n
        members = []
        if used and rng.random() < 0.85:
            members.append(rng.choice(used))
        while len(members) < deg and fresh:
            members.append(fresh.pop())
        if len(members) < 2:
            break
        for v in members:
            row[v] = 1
            if v not in used:
                used.append(v)
        H.append(row)
    return H


# ------------------------------------------------------------------ the catalogue
def catalogue(tier: str, seed: int, purpose: str = "all") -> list[dict]:
    rng = random.Random(f"catalogue-{tier}-{seed}")
    q = tier == "quick"
    out: list[dict] = []

    # generic linear: random full-rank, incl. 3x7 shapes, n*k <= 30 and > 30
    shapes = [(1, 2), (1, 5), (2, 3), (2, 5), (3, 7), (3, 7), (3, 5), (3, 8), (4, 7), (4, 8), (5, 6), (2, 15), (5, 10), (6, 12), (4, 4), (3, 3)]
    if not q:
        shapes += [(rng.randint(1, 8), 0) for _ in range(120)]
        shapes += [(9, 14), (10, 16), (8, 20), (12, 24), (7, 7), (3, 7), (3, 7), (3, 10)]
    for k, n in shapes:
        if n == 0:
            n = rng.randint(k, 16)
        out.append({"family": "generic", "k": k, "n": n, "G": random_full_rank(rng, k, n, dense=n > k)})
    # generic, systematic form with permuted columns (identity columns scattered)
    for k, n in [(3, 7), (4, 8), (3, 6), (5, 9)] + ([] if q else [(rng.randint(2, 7), 0) for _ in range(40)]):
        if n == 0:
            n = rng.randint(k + 1, 15)
        P = random_matrix(rng, k, n - k)
        cols = list(range(n))
        rng.shuffle(cols)
        G = [[0] * n for _ in range(k)]
        for i in range(k):
            full = [1 if j == i else 0 for j in range(k)] + P[i]
            for j, cpos in enumerate(cols):
                G[i][cpos] = full[j]
        out.append({"family": "generic", "variant": "permuted_systematic", "k": k, "n": n, "G": G})

    # systematic with every information-set kind
    sys_shapes = [(3, 3), (4, 3), (2, 5), (5, 4)] + ([] if q else [(rng.randint(1, 8), rng.randint(1, 8)) for _ in range(40)])
    for k, m in sys_shapes:
        n = k + m
        P = random_matrix(rng, k, m)
        srt = sorted(rng.sample(range(n), k))
        perm = srt[:]
        rng.shuffle(perm)
        if perm == srt and k > 1:
            perm = srt[::-1]
        for info, label in [("left", "left"), ("right", "right"), (srt, "sorted_list"), (perm, "permuted_list")]:
            out.append({"family": "systematic", "P": P, "info": info, "info_kind": label})

    # Hamming
    for mu in ([2, 3, 4] if q else [2, 3, 4, 5, 6]):
        for ext in (False, True):
            n = 2**mu - (0 if ext else 1)
            k = 2**mu - mu - 1
            infos = [("left", "left"), ("right", "right")]
            if mu <= 4:
                srt = sorted(rng.sample(range(n), k))
                perm = srt[:]
                rng.shuffle(perm)
                infos += [(srt, "sorted_list"), (perm, "permuted_list")]
            for info, label in infos:
                out.append({"family": "hamming", "mu": mu, "extended": ext, "info": info, "info_kind": label})
    # Golay
    for ext in (False, True):
        for info in ("left", "right"):
            out.append({"family": "golay", "extended": ext, "info": info, "info_kind": info})
    # repetition / SPC
    for n in range(1, 10 if q else 13):
        out.append({"family": "repetition", "n": n})
    for k in range(1, 11 if q else 13):
        out.append({"family": "spc", "k": k})
    # Reed-Muller
    for m in range(1, 5 if q else 6):
        for r in range(0, m):
            out.append({"family": "rm", "r": r, "m": m})
    # cyclic: every divisor
    for n in ([3, 5, 7, 9, 15] if q else [3, 5, 6, 7, 9, 10, 12, 14, 15, 17, 21]):
        for g in divisors_of_xn1(n):
            h = pdivmod((1 << n) | 1, g)[0]
            srcs = ["g"] if (q and n == 15) else ["g", "h", "both"]
            for src in srcs:
                for info in ("left", "right"):
                    out.append({"family": "cyclic", "n": n, "g": g, "h": h, "src": src, "info": info, "info_kind": info})
    for name in ["Hamming(7,4)", "Simplex(7,3)", "BCH(15,7)", "BCH(15,5)", "Golay(23,12)"]:
        for info in ("left", "right"):
            out.append({"family": "cyclic_std", "name": name, "info": info, "info_kind": info})
    # BCH: every Bose distance
    for mu in ([2, 3, 4] if q else [2, 3, 4, 5, 6]):
        must = set(bose_distances(mu))
        for delta in range(2, 2**mu):
            for info in ("left", "right"):
                out.append({"family": "bch", "mu": mu, "delta": delta, "info": info, "info_kind": info, "must_construct": delta in must})
    # cyclic and BCH codes with index-list information sets (ascending and permuted): any k-sublist is accepted,
    # the identity goes to those positions in the given order
    listed = [("cyclic", 7, 0b1011), ("cyclic", 15, 0b10011), ("cyclic", 15, 0b111010001), ("bch", 3, 3), ("bch", 4, 5), ("bch", 4, 7)]
    if not q:
        listed += [("cyclic", 9, 0b1001001), ("cyclic", 21, 0b1010111), ("cyclic", 15, 0b11111), ("bch", 5, 5), ("bch", 5, 7), ("bch", 3, 7)]
    for fam, a, b in listed:
        if fam == "cyclic":
            n, k = a, a - (b.bit_length() - 1)
        else:
            n = 2**a - 1
            k = n - (gf2m_bch_degree(a, b))
        for rep in range(1 if q else 2):
            srt = sorted(rng.sample(range(n), k))
            perm = srt[:]
            rng.shuffle(perm)
            if perm == srt and k > 1:
                perm = srt[::-1]
            for info, label in ((srt, "sorted_list"), (perm, "permuted_list")):
                if fam == "cyclic":
                    h = pdivmod((1 << n) | 1, b)[0]
                    out.append({"family": "cyclic", "n": n, "g": b, "h": h, "src": "g", "info": info, "info_kind": label})
                else:
                    out.append({"family": "bch", "mu": a, "delta": b, "info": info, "info_kind": label, "must_construct": True})
    if q:
        # the larger fields (own modulus table entries): a few textbook design distances each
        for mu, deltas in ((5, (3, 5, 7)), (6, (3, 5, 7))):
            for delta in deltas:
                for info in ("left", "right"):
                    out.append({"family": "bch", "mu": mu, "delta": delta, "info": info, "info_kind": info, "must_construct": True})
    # RS-style
    for mu in ([2, 3] if q else [2, 3, 4]):
        for delta in range(2, 2**mu - 1):
            for info in ("left", "right"):
                out.append({"family": "rs", "mu": mu, "delta": delta, "info": info, "info_kind": info})
    # LDPC from user matrices
    n_ldpc = 6 if q else 60
    for i in range(n_ldpc):
        n = rng.randint(5, 14)
        kind = ["sparse", "tree", "dependent"][i % 3]
        if kind == "tree":
            H = tree_check_matrix(rng, n, rng.randint(2, n - 2))
        else:
            r = rng.randint(2, n - 2)
            H = []
            for _ in range(r):
                row = [0] * n
                for v in rng.sample(range(n), rng.randint(2, min(4, n))):
                    row[v] = 1
                H.append(row)
            if kind == "dependent":
                H.append([a ^ b for a, b in zip(H[0], H[1])])
                H.append(list(H[0]))
        if gf2.rank(gf2.rows_from_matrix(H)) >= n:
            continue
        out.append({"family": "ldpc", "H": H, "kind": kind})
    out.append({"family": "ldpc", "kind": "example3x6", "H": [[1, 1, 0, 1, 0, 0], [0, 1, 1, 0, 1, 0], [1, 0, 1, 0, 0, 1]]})
    # the same objects in another *form*: a deep copy, the module converted with .double(), converted there and back,
    # re-initialised through state_dict of a twin -- one seeded representative per (family, information-set kind, variant)
    reps: dict = {}
    for s in out:
        n_, k_ = nk(s)
        if n_ > 31 or k_ > 16 or k_ < 2 or k_ == n_:
            continue
        if s["family"] == "bch" and not s.get("must_construct"):
            continue
        reps.setdefault((s["family"], str(s.get("info_kind")), s.get("extended"), s.get("kind"), s.get("variant")), []).append(s)
    for key in sorted(reps, key=str):
        cands = reps[key]
        picks = [rng.choice(cands)] if q else rng.sample(cands, min(3, len(cands)))
        for j, s in enumerate(picks):
            for form in FORMS:
                if form == "deepcopy" and s["family"] in ("bch", "rs"):
                    continue  # GF(2^m) element objects do not support copy/pickle (outside the properties)
                out.append(dict(s, form=form))
    for i, s in enumerate(out):
        s["id"] = i
    return out


def nk(spec: dict):
    """(n, k) of a catalogue entry, computed without building it."""
    f = spec["family"]
    if f in ("generic",):
        return spec["n"], spec["k"]
    if f == "systematic":
        return len(spec["P"]) + len(spec["P"][0]), len(spec["P"])
    if f == "hamming":
        mu = spec["mu"]
        return 2**mu - (0 if spec["extended"] else 1), 2**mu - mu - 1
    if f == "golay":
        return (24 if spec["extended"] else 23), 12
    if f == "repetition":
        return spec["n"], 1
    if f == "spc":
        return spec["k"] + 1, spec["k"]
    if f == "rm":
        from math import comb

        return 2 ** spec["m"], sum(comb(spec["m"], i) for i in range(spec["r"] + 1))
    if f == "cyclic":
        return spec["n"], spec["n"] - (spec["g"].bit_length() - 1)
    if f == "cyclic_std":
        return {"Hamming(7,4)": (7, 4), "Simplex(7,3)": (7, 3), "BCH(15,7)": (15, 11), "BCH(15,5)": (15, 5), "Golay(23,12)": (23, 12)}[spec["name"]]
    if f == "bch":
        from vk.oracles import gf2m

        nn = 2 ** spec["mu"] - 1
        cos = set()
        for e in range(1, spec["delta"]):
            cos.update(gf2m.cyclotomic_coset(e, nn))
        return nn, nn - len(cos)
    if f == "rs":
        nn = 2 ** spec["mu"] - 1
        return nn, nn - spec["delta"] + 1
    if f == "ldpc":
        H = gf2.rows_from_matrix(spec["H"])
        nn = len(spec["H"][0])
        return nn, nn - gf2.rank(H)
    raise ValueError(f)


def big_groups(tier: str, seed: int) -> list[dict]:
    """Objects wider than a 64-bit machine word, in groups of same-shaped codes that one process builds and uses
    one after the other (group specs: family 'group', members = ordinary specs; ids from 100000)."""
    rng = random.Random(f"catalogue-big-{tier}-{seed}")
    groups = [
        [
            {"family": "hamming", "mu": 7, "extended": False, "info": "left", "info_kind": "left"},
            {"family": "bch", "mu": 7, "delta": 3, "info": "left", "info_kind": "left", "must_construct": True},
            {"family": "hamming", "mu": 7, "extended": False, "info": "right", "info_kind": "right"},
            {"family": "bch", "mu": 7, "delta": 3, "info": "right", "info_kind": "right", "must_construct": True},
            {"family": "bch", "mu": 7, "delta": 5, "info": "left", "info_kind": "left", "must_construct": True},
        ],
        [{"family": "generic", "k": 66, "n": 72, "G": random_full_rank(rng, 66, 72, dense=True)} for _ in range(2)]
        + [{"family": "systematic", "P": random_matrix(rng, 70, 10), "info": info, "info_kind": info} for info in ("left", "left", "right")],
    ]
    out = []
    nid = 100000
    for gi, members in enumerate(groups):
        for m in members:
            m["id"] = nid
            nid += 1
        out.append({"family": "group", "members": members, "id": nid + 1000 + gi})
    return out


def gf2m_bch_degree(mu: int, delta: int) -> int:
    """Degree of the narrow-sense primitive BCH generator polynomial: size of the union of the cyclotomic cosets
    of 1..delta-1 modulo 2^mu-1 (independent of kaira)."""
    n = 2**mu - 1
    roots = set()
    for i in range(1, delta):
        x = i % n
        while x not in roots:
            roots.add(x)
            x = (2 * x) % n
    return len(roots)


def bose_distances(mu: int) -> list[int]:
    """Textbook Bose distances of primitive narrow-sense BCH codes of length 2^mu-1: delta such
    that the cyclotomic coset of delta is not among those of 1..delta-1, plus delta = n.
    Computed from cyclotomic cosets only (independent of kaira)."""
    n = 2**mu - 1
    seen = set()
    out = []
    for delta in range(1, n):
        coset = set()
        x = delta
        while x not in coset:
            coset.add(x)
            x = (2 * x) % n
        key = min(coset)
        if key not in seen:
            seen.add(key)
            if delta >= 2:
                out.append(delta)
    out.append(n)
    return sorted(set(out))


def cfg(spec: dict) -> str:
    f = spec["family"]
    if f == "generic":
        k, n = spec["k"], spec["n"]
        return f"{spec.get('variant', 'dense')},{'3x7' if (k, n) == (3, 7) else ('nk<=30' if n * k <= 30 else 'nk>30')}"
    if f == "systematic":
        return f"info={spec['info_kind']}"
    if f == "hamming":
        return f"{'extended' if spec['extended'] else 'plain'},mu{'>=3' if spec['mu'] >= 3 else '=2'},info={spec['info_kind']}"
    if f == "golay":
        return f"{'extended' if spec['extended'] else 'plain'},info={spec['info_kind']}"
    if f == "repetition":
        return "n=1" if spec["n"] == 1 else ("n=2" if spec["n"] == 2 else "n>=3")
    if f == "spc":
        return "k=1" if spec["k"] == 1 else "k>=2"
    if f == "rm":
        import math

        big = ",k>20" if sum(math.comb(spec["m"], i) for i in range(spec["r"] + 1)) > 20 else ""
        return ("r=0" if spec["r"] == 0 else ("r=m-1" if spec["r"] == spec["m"] - 1 else "1<=r<m-1")) + big
    if f == "cyclic":
        return f"src={spec['src']},info={spec['info_kind']}"
    if f == "cyclic_std":
        return f"info={spec['info_kind']}"
    if f == "bch":
        return f"info={spec['info_kind']}"
    if f == "rs":
        return f"info={spec['info_kind']}"
    if f == "ldpc":
        return spec["kind"] if spec["kind"] != "example3x6" else "sparse"
    return "?"


def name(spec: dict) -> str:
    return f"{spec['family']}|{cfg(spec)}"


FORMS = ("deepcopy", "double", "double_float", "state_dict")


def build(spec: dict):
    """Construct the real encoder (in the form the entry asks for).  stdout chatter of constructors is swallowed."""
    form = spec.get("form")
    if not form:
        return _build(spec)
    import copy

    base = dict(spec)
    base.pop("form")
    enc = _build(base)
    with contextlib.redirect_stdout(io.StringIO()):
        if form == "deepcopy":
            # the original is used once first (lazily filled attributes exist), then copied
            import torch

            enc(torch.zeros(int(enc.code_dimension)))
            return copy.deepcopy(enc)
        if form == "double":
            return enc.double()
        if form == "double_float":
            return enc.double().float()
        if form == "state_dict":
            twin = _build(base)
            twin.load_state_dict(copy.deepcopy(enc.state_dict()))
            return twin
    raise ValueError(form)


def _build(spec: dict):
    import torch

    from kaira.models.fec import encoders as E

    f = spec["family"]
    with contextlib.redirect_stdout(io.StringIO()):
        if f == "generic":
            # every third generic entry hands the constructor an int64 matrix, the others float32
            dt = torch.int64 if spec.get("id", 0) % 3 == 1 else torch.float32
            try:
                return E.LinearBlockCodeEncoder(torch.tensor(spec["G"], dtype=dt))
            except (RuntimeError, TypeError):
                if dt == torch.float32:
                    raise
                return E.LinearBlockCodeEncoder(torch.tensor(spec["G"], dtype=torch.float32))
        if f == "systematic":
            return E.SystematicLinearBlockCodeEncoder(torch.tensor(spec["P"], dtype=torch.float32), information_set=spec["info"])
        if f == "hamming":
            return E.HammingCodeEncoder(mu=spec["mu"], extended=spec["extended"], information_set=spec["info"])
        if f == "golay":
            return E.GolayCodeEncoder(extended=spec["extended"], information_set=spec["info"])
        if f == "repetition":
            return E.RepetitionCodeEncoder(repetition_factor=spec["n"])
        if f == "spc":
            return E.SingleParityCheckCodeEncoder(spec["k"])
        if f == "rm":
            return E.ReedMullerCodeEncoder(spec["r"], spec["m"])
        if f == "cyclic":
            kw = {}
            if spec["src"] in ("g", "both"):
                kw["generator_polynomial"] = spec["g"]
            if spec["src"] in ("h", "both"):
                kw["check_polynomial"] = spec["h"]
            return E.CyclicCodeEncoder(code_length=spec["n"], information_set=spec["info"], **kw)
        if f == "cyclic_std":
            return E.CyclicCodeEncoder.create_standard_code(spec["name"], information_set=spec["info"])
        if f == "bch":
            return E.BCHCodeEncoder(mu=spec["mu"], delta=spec["delta"], information_set=spec["info"])
        if f == "rs":
            return E.ReedSolomonCodeEncoder(mu=spec["mu"], delta=spec["delta"], information_set=spec["info"])
        if f == "ldpc":
            return E.LDPCCodeEncoder(check_matrix=torch.tensor(spec["H"], dtype=torch.int64))
    raise ValueError(f)


def all_messages(k: int):
    """(2^k, k) float tensor; row index i has bit j of i at column j."""
    import torch

    idx = torch.arange(2**k).unsqueeze(1)
    return ((idx >> torch.arange(k).unsqueeze(0)) & 1).to(torch.float32)


def sample_messages(rng: random.Random, k: int, count: int):
    import torch

    rows = [[rng.getrandbits(1) for _ in range(k)] for _ in range(count)]
    rows[0] = [0] * k
    if count > 1:
        rows[1] = [1] * k
    return torch.tensor(rows, dtype=torch.float32)


def messages_for(rng: random.Random, k: int, exhaustive_to: int = 12, count: int = 2048):
    if k <= exhaustive_to:
        return all_messages(k), True
    return sample_messages(rng, k, count), False


def rows_to_ints(t) -> list[int]:
    """(B, n) 0/1 tensor -> list of python ints (bit j <-> column j)."""
    import numpy as np
    import torch

    a = t.detach().to(torch.float64).round().to(torch.int64).numpy() & 1
    n = a.shape[1]
    if n <= 62:
        w = (a * (1 << np.arange(n, dtype=np.int64))[None, :]).sum(axis=1)
        return [int(x) for x in w]
    return [gf2.vec_from_bits(r) for r in a]
