"""Catalogue of modulation schemes (C05, C06, C09, C14, C15, C20) and helpers that drive the
real modulators to obtain their *effective* constellation (label -> point)."""
from __future__ import annotations

import itertools


def catalogue(tier: str) -> list[dict]:
    q = tier == "quick"
    out = [{"scheme": "bpsk"}, {"scheme": "bpsk", "complex_output": False}, {"scheme": "identity"}]
    for norm in (True, False):
        out.append({"scheme": "qpsk", "normalize": norm})
        out.append({"scheme": "oqpsk", "normalize": norm})
    for order in (4, 8, 16, 32, 64):
        for gray in (True, False):
            out.append({"scheme": "psk", "order": order, "gray": gray})
    for order in (4, 16, 64, 256):
        for gray in (True, False):
            for norm in (True, False):
                out.append({"scheme": "qam", "order": order, "gray": gray, "normalize": norm})
    for order in (2, 4, 8, 16, 32, 64):
        for gray in (True, False):
            for norm in (True, False):
                out.append({"scheme": "pam", "order": order, "gray": gray, "normalize": norm})
    for order in (2, 4, 8, 16):
        for gray in (True, False):
            out.append({"scheme": "dpsk", "order": order, "gray": gray})
    # the other documented spellings of the same DPSK configuration: the `gray_coded=` alias and `bits_per_symbol=`
    for order in (4, 8, 16):
        for gray in (True, False):
            out.append({"scheme": "dpsk", "order": order, "gray": gray, "spelling": "gray_coded"})
            out.append({"scheme": "dpsk", "order": order, "gray": gray, "spelling": "bits_per_symbol"})
    out += [{"scheme": "dbpsk"}, {"scheme": "dqpsk"}]
    for gray in (True, False):
        out.append({"scheme": "pi4qpsk", "gray": gray})
    full = []
    for s in out:
        full.append(dict(s, via="direct"))
    # the same schemes through the registry (a subset in quick)
    for s in out:
        if q and s["scheme"] in ("qam", "pam", "psk") and s.get("order") not in (4, 16, 8):
            continue
        full.append(dict(s, via="registry"))
    # the same objects in another *form* (dtype-preserving, so every clause applies unchanged): deep copy of a used
    # object, .double().float() round trip, state re-loaded into a twin through state_dict
    seen = set()
    for s in out:
        key = (s["scheme"], s.get("order"))
        if key in seen or s["scheme"] == "identity" or (q and s.get("order", 4) > 16):
            continue
        seen.add(key)
        for form in FORMS:
            full.append(dict(s, via="direct", form=form))
    for i, s in enumerate(full):
        s["id"] = i
    return full


FORMS = ("deepcopy", "double_float", "state_dict")


def _apply_form(s: dict, mod, dem):
    import copy

    import torch

    form = s.get("form")
    if form == "deepcopy":
        # used once, then copied: lazily built attributes and memory are copied with it
        b = bits_per_symbol(s)
        try:
            dem(mod(torch.zeros(1, 4 * b)))
        except Exception:  # noqa: BLE001 - warming up must not decide anything
            pass
        return copy.deepcopy(mod), copy.deepcopy(dem)
    if form == "double_float":
        return mod.double().float(), dem.double().float()
    if form == "state_dict":
        plain = dict(s)
        plain.pop("form")
        m2, d2 = build(plain, soft=bool(getattr(dem, "soft_output", False)))
        m2.load_state_dict(copy.deepcopy(mod.state_dict()))
        d2.load_state_dict(copy.deepcopy(dem.state_dict()))
        return m2, d2
    return mod, dem


def cfg(s: dict) -> str:
    parts = [s["scheme"]]
    if "order" in s:
        parts.append(f"M={s['order']}")
    if "gray" in s:
        parts.append("gray" if s["gray"] else "binary")
    if "normalize" in s:
        parts.append("norm" if s["normalize"] else "unnorm")
    if s.get("complex_output") is False:
        parts.append("real_output")
    if s.get("spelling"):
        parts.append(f"spelled:{s['spelling']}")
    parts.append(s.get("via", "direct"))
    if s.get("form"):
        parts.append(f"form:{s['form']}")
    return ",".join(parts)


def cfg_class(s: dict) -> str:
    """configuration class for violation keys: scheme + labelling (+ order only where code paths differ)."""
    parts = [s["scheme"]]
    if "gray" in s:
        parts.append("gray" if s["gray"] else "binary")
    if s["scheme"] in ("dpsk", "pam") and "order" in s:
        parts.append("M=2" if s["order"] == 2 else "M>=4")
    if s.get("complex_output") is False:
        parts.append("real_output")
    return ",".join(parts)


MEMORY = {"dpsk", "dbpsk", "dqpsk", "oqpsk", "pi4qpsk"}
REG_NAMES = {
    "bpsk": ("bpskmodulator", "bpskdemodulator"),
    "qpsk": ("qpskmodulator", "qpskdemodulator"),
    "psk": ("pskmodulator", "pskdemodulator"),
    "qam": ("qammodulator", "qamdemodulator"),
    "pam": ("pammodulator", "pamdemodulator"),
    "dpsk": ("dpskmodulator", "dpskdemodulator"),
    "dbpsk": ("dbpsk", "dbpsk"),
    "dqpsk": ("dqpsk", "dqpsk"),
    "oqpsk": ("oqpsk", "oqpsk"),
    "pi4qpsk": ("pi4qpsk", "pi4qpsk"),
    "identity": ("identitymodulator", "identitydemodulator"),
}


def _kwargs(s: dict) -> tuple[dict, dict]:
    sc = s["scheme"]
    if sc == "bpsk":
        mk = {} if s.get("complex_output", True) else {"complex_output": False}
        return mk, {}
    if sc in ("qpsk", "oqpsk"):
        return {"normalize": s["normalize"]}, {"normalize": s["normalize"]}
    if sc == "psk":
        kw = {"order": s["order"], "gray_coding": s["gray"]}
        return kw, dict(kw)
    if sc in ("qam", "pam"):
        kw = {"order": s["order"], "gray_coding": s["gray"], "normalize": s["normalize"]}
        return kw, dict(kw)
    if sc == "dpsk":
        kw = {"order": s["order"], "gray_coding": s["gray"]}
        if s.get("spelling") == "gray_coded":
            kw = {"order": s["order"], "gray_coded": s["gray"]}
        elif s.get("spelling") == "bits_per_symbol":
            kw = {"bits_per_symbol": s["order"].bit_length() - 1, "gray_coding": s["gray"]}
        return kw, dict(kw)
    if sc == "pi4qpsk":
        return {"gray_coded": s["gray"]}, {"gray_coded": s["gray"]}
    return {}, {}


def build(s: dict, soft: bool = False):
    """-> (modulator, demodulator), both in eval mode with freshly reset state."""
    import kaira.modulations as M
    from kaira.modulations import ModulationRegistry as R

    mk, dk = _kwargs(s)
    sc = s["scheme"]
    if sc == "pi4qpsk":
        import inspect

        if "gray_coded" not in inspect.signature(M.Pi4QPSKDemodulator.__init__).parameters:
            dk = {}
        if soft:
            dk = dict(dk, soft_output=True)
    if s.get("via") == "registry":
        mn, dn = REG_NAMES[sc]
        mod = R.create(mn, "modulator", **mk)
        dem = R.create(dn, "demodulator", **dk)
    else:
        cls = {
            "bpsk": (M.BPSKModulator, M.BPSKDemodulator),
            "qpsk": (M.QPSKModulator, M.QPSKDemodulator),
            "psk": (M.PSKModulator, M.PSKDemodulator),
            "qam": (M.QAMModulator, M.QAMDemodulator),
            "pam": (M.PAMModulator, M.PAMDemodulator),
            "dpsk": (M.DPSKModulator, M.DPSKDemodulator),
            "dbpsk": (M.DBPSKModulator, M.DBPSKDemodulator),
            "dqpsk": (M.DQPSKModulator, M.DQPSKDemodulator),
            "oqpsk": (M.OQPSKModulator, M.OQPSKDemodulator),
            "pi4qpsk": (M.Pi4QPSKModulator, M.Pi4QPSKDemodulator),
            "identity": (M.IdentityModulator, M.IdentityDemodulator),
        }[sc]
        mod, dem = cls[0](**mk), cls[1](**dk)
    if s.get("form"):
        mod, dem = _apply_form(s, mod, dem)
    mod.eval()
    dem.eval()
    mod.reset_state()
    dem.reset_state()
    return mod, dem


def bits_per_symbol(s: dict) -> int:
    sc = s["scheme"]
    if sc in ("bpsk", "identity", "dbpsk"):
        return 1
    if sc in ("qpsk", "oqpsk", "pi4qpsk", "dqpsk"):
        return 2
    return s["order"].bit_length() - 1


def all_groups(b: int):
    return [list(g) for g in itertools.product([0, 1], repeat=b)]


def fresh(mod, dem):
    mod.eval()
    dem.eval()
    mod.reset_state()
    dem.reset_state()


def effective_constellation(s: dict, mod) -> dict:
    """label (tuple of bits) -> complex point actually emitted for that label.

    memoryless: drive with a 2-D batch holding every group as its own row.
    dpsk-type: the decision variable y1*conj(y0) for sequences [g0, g] (must not depend on g0).
    pi4qpsk: returns {'even': {...}, 'odd': {...}}.
    oqpsk: per-component BPSK maps {'I': {(0,): p, (1,): p}, 'Q': {...}}.
    """
    import torch

    sc = s["scheme"]
    b = bits_per_symbol(s)
    groups = all_groups(b)
    if sc not in MEMORY:
        mod.reset_state()
        x = torch.tensor(groups, dtype=torch.float32)  # (2^b, b): one symbol per row
        y = mod(x)
        y = y.reshape(len(groups))
        return {tuple(g): complex(y[i].item()) if torch.is_complex(y) else complex(float(y[i].item()), 0.0) for i, g in enumerate(groups)}
    if sc in ("dpsk", "dbpsk", "dqpsk"):
        out = {}
        for g in groups:
            vals = []
            for g0 in groups[: min(4, len(groups))]:
                mod.reset_state()
                y = mod(torch.tensor([g0 + g], dtype=torch.float32))  # (1, 2b) -> (1, 2)
                z = y[0, 1] * torch.conj(y[0, 0])
                vals.append(complex(z.item()))
            out[tuple(g)] = vals[0]
            out.setdefault("_spread", 0.0)
            out["_spread"] = max(out["_spread"], max(abs(v - vals[0]) for v in vals))
        return out
    if sc == "pi4qpsk":
        res = {"even": {}, "odd": {}}
        for g in groups:
            mod.reset_state()
            y = mod(torch.tensor([g + g + g + g], dtype=torch.float32))  # (1, 8) -> 4 symbols
            res["even"][tuple(g)] = complex(y[0, 0].item())
            res["odd"][tuple(g)] = complex(y[0, 1].item())
        return res
    if sc == "oqpsk":
        res = {"I": {}, "Q": {}}
        for bit in (0, 1):
            mod.reset_state()
            y = mod(torch.tensor([[bit, bit, bit, bit, bit, bit]], dtype=torch.float32))  # 3 symbols
            res["I"][(bit,)] = complex(float(y[0, 1].real), 0.0)
            res["Q"][(bit,)] = complex(float(y[0, 1].imag), 0.0)
        return res
    raise ValueError(sc)
