"""MANIFEST.setup_cmd: offline install of contract libraries + reference-model self-tests."""
import importlib
import os
import sys

from vk import run as _run

ORACLES = ["gf2", "gf2m", "refmod", "stats"]


def main():
    _run.ensure_deps()
    ok = os.path.isdir(os.path.join(_run.DEPS, "icontract"))
    print(f"deps: icontract {'present' if ok else 'MISSING'} in {_run.DEPS}")
    sys.path.append(_run.DEPS)
    for name in ORACLES:
        m = importlib.import_module(f"vk.oracles.{name}")
        assert m.selftest() is True
        print(f"oracle self-test {name}: ok")
    return 0 if ok else 1


if __name__ == "__main__":
    sys.exit(main())
