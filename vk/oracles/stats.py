"""Acceptance intervals with a rigorous bound on the probability of rejecting correct code
(DESIGN 2.1 E).  Every function returns (lo, hi) for the *statistic*, valid at level alpha under
the stated null law."""
from __future__ import annotations

import math

from scipy import stats as st


def binom_count_interval(n: int, p: float, alpha: float) -> tuple[int, int]:
    """K ~ Bin(n,p): P(K<lo)+P(K>hi) <= alpha."""
    if n == 0:
        return 0, 0
    if p <= 0:
        return 0, 0
    if p >= 1:
        return n, n
    lo = int(st.binom.ppf(alpha / 2, n, p))
    hi = int(st.binom.isf(alpha / 2, n, p))
    # ppf returns smallest k with cdf>=q: P(K<lo) < alpha/2 ; isf returns smallest k with sf<=q: P(K>hi) <= alpha/2
    return max(lo - 1, 0), min(hi + 1, n)


def gaussian_sumsq_interval(n: int, sigma2: float, alpha: float) -> tuple[float, float]:
    """S = sum of n iid N(0, sigma2) squared = sigma2 * chi2_n. Interval for S/n."""
    lo = st.chi2.ppf(alpha / 2, n) / n
    hi = st.chi2.isf(alpha / 2, n) / n
    return sigma2 * lo, sigma2 * hi


def gaussian_mean_halfwidth(n: int, sigma2: float, alpha: float) -> float:
    """|mean| of n iid N(0,sigma2) exceeds this with probability alpha."""
    return float(st.norm.isf(alpha / 2)) * math.sqrt(sigma2 / n)


def gamma_mean_interval(n: int, scale: float, alpha: float) -> tuple[float, float]:
    """mean of n iid Exp(scale) (= |Laplace(scale)|, or |h|^2 for Rayleigh with scale 1)."""
    lo = st.gamma.ppf(alpha / 2, n) / n
    hi = st.gamma.isf(alpha / 2, n) / n
    return scale * lo, scale * hi


def bernstein_halfwidth(n: int, var_bound: float, range_bound: float, alpha: float) -> float:
    """iid Y in an interval of length range_bound with Var<=var_bound:
    P(|mean-mu|>=t) <= 2 exp(-n t^2 / (2 v + 2 c t / 3)).  Returns the t with bound = alpha."""
    L = math.log(2.0 / alpha)
    # n t^2 - (2cL/3) t - 2vL = 0
    a, b, c = n, -(2 * range_bound * L / 3), -2 * var_bound * L
    return (-b + math.sqrt(b * b - 4 * a * c)) / (2 * a)


def clipped_exp_square_moments(clip: float) -> tuple[float, float]:
    """E ~ Exp(1), Y = min(E^2, clip): returns (mean, variance upper bound = E[E^4] - mean^2 <= 24 - mean^2)."""
    s = math.sqrt(clip)
    mean = 2.0 - math.exp(-s) * (2 * s + 2)
    return mean, 24.0 - mean * mean


def laplace_power_interval(n: int, scale: float, alpha: float, clip_factor: float = 191.0) -> tuple[float, float, float]:
    """For X ~ Laplace(0, scale): statistic mean(min(X^2, clip_factor*scale^2)).  Returns (lo, hi, clip)."""
    mean, var = clipped_exp_square_moments(clip_factor)
    t = bernstein_halfwidth(n, var, clip_factor, alpha)
    b2 = scale * scale
    return b2 * (mean - t), b2 * (mean + t), clip_factor * b2


def hoeffding_halfwidth(n: int, range_bound: float, alpha: float) -> float:
    return range_bound * math.sqrt(math.log(2.0 / alpha) / (2 * n))


def selftest():
    lo, hi = binom_count_interval(10**6, 0.1, 1e-12)
    assert lo < 100000 < hi and hi - lo < 5000
    assert binom_count_interval(100, 0.0, 1e-9) == (0, 0) and binom_count_interval(100, 1.0, 1e-9) == (100, 100)
    lo, hi = gaussian_sumsq_interval(10**6, 2.0, 1e-12)
    assert 1.97 < lo < 2.0 < hi < 2.03
    lo, hi = gamma_mean_interval(10**6, 1.0, 1e-12)
    assert 0.99 < lo < 1.0 < hi < 1.01
    t = bernstein_halfwidth(10**6, 20.0, 191.0, 1e-12)
    assert 0.02 < t < 0.06
    m, v = clipped_exp_square_moments(191.0)
    assert abs(m - 2.0) < 1e-4 and 19.9 < v < 20.1
    return True


if __name__ == "__main__":
    print(selftest())
