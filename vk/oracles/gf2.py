"""Independent GF(2) linear algebra on Python-int bit masks (bit j <-> column j).

Shares no code with kaira.  Used as the trusted reference for C01-C04, C09, C10, C20.
"""
from __future__ import annotations

import numpy as np

_POP8 = np.array([bin(i).count("1") for i in range(256)], dtype=np.uint8)


def popcount_u64(a: np.ndarray) -> np.ndarray:
    b = np.ascontiguousarray(a, dtype=np.uint64).view(np.uint8).reshape(a.shape + (8,))
    return _POP8[b].sum(axis=-1).astype(np.int64)


def rows_from_matrix(mat) -> list[int]:
    """mat: nested list / tensor / array of 0/1 (after rounding and mod 2)."""
    try:
        import torch

        if isinstance(mat, torch.Tensor):
            mat = mat.detach().to(torch.float64).round().remainder(2).to(torch.int64).tolist()
    except ImportError:
        pass
    out = []
    for row in mat:
        v = 0
        for j, b in enumerate(row):
            if int(round(float(b))) & 1:
                v |= 1 << j
        out.append(v)
    return out


def vec_from_bits(bits) -> int:
    v = 0
    for j, b in enumerate(bits):
        if int(round(float(b))) & 1:
            v |= 1 << j
    return v


def bits_from_vec(v: int, n: int) -> list[int]:
    return [(v >> j) & 1 for j in range(n)]


def rref(rows: list[int]) -> tuple[list[int], list[int]]:
    """Reduced row echelon form; pivots are lowest set bit positions. Returns (rows, pivots)."""
    basis: list[int] = []
    pivots: list[int] = []
    for r in rows:
        for b, p in zip(basis, pivots):
            if (r >> p) & 1:
                r ^= b
        if r:
            p = (r & -r).bit_length() - 1
            for i in range(len(basis)):
                if (basis[i] >> p) & 1:
                    basis[i] ^= r
            basis.append(r)
            pivots.append(p)
    order = sorted(range(len(basis)), key=lambda i: pivots[i])
    return [basis[i] for i in order], [pivots[i] for i in order]


def rank(rows: list[int]) -> int:
    return len(rref(rows)[0])


def reduce_by(basis: list[int], pivots: list[int], v: int) -> int:
    for b, p in zip(basis, pivots):
        if (v >> p) & 1:
            v ^= b
    return v


def in_span(basis: list[int], pivots: list[int], v: int) -> bool:
    return reduce_by(basis, pivots, v) == 0


def rowspace_equal(a: list[int], b: list[int]) -> bool:
    ra, _ = rref(a)
    rb, _ = rref(b)
    return ra == rb


def nullspace(rows: list[int], n: int) -> list[int]:
    """Basis of {x : r.x = 0 for all r in rows}, x of length n."""
    basis, pivots = rref(rows)
    pivset = set(pivots)
    free = [j for j in range(n) if j not in pivset]
    out = []
    for f in free:
        x = 1 << f
        for b, p in zip(basis, pivots):
            if (b >> f) & 1:
                x |= 1 << p
        out.append(x)
    return out


def dot(a: int, b: int) -> int:
    return bin(a & b).count("1") & 1


def encode(msg: int, G: list[int]) -> int:
    """msg bit i selects row i."""
    c = 0
    i = 0
    while msg:
        if msg & 1:
            c ^= G[i]
        msg >>= 1
        i += 1
    return c


def syndrome(word: int, H: list[int]) -> int:
    s = 0
    for i, h in enumerate(H):
        if dot(word, h):
            s |= 1 << i
    return s


def span(rows: list[int]) -> np.ndarray:
    """All 2^k combinations; index m (bit i <-> row i) -> codeword. uint64, n <= 64."""
    cw = np.zeros(1, dtype=np.uint64)
    for r in rows:
        cw = np.concatenate([cw, cw ^ np.uint64(r)])
    return cw


def weight_enumerator(rows: list[int], n: int) -> list[int]:
    basis, _ = rref(rows)
    k = len(basis)
    A = np.zeros(n + 1, dtype=object)
    if k <= 22:
        w = popcount_u64(span(basis))
        cnt = np.bincount(w, minlength=n + 1)
        return [int(c) for c in cnt]
    raise ValueError("dimension too large for enumeration")


def macwilliams(A: list[int], n: int, k: int) -> list[int]:
    """Weight enumerator of the dual of an (n,k) code with enumerator A (exact integers)."""
    from math import comb

    B = []
    for j in range(n + 1):
        s = 0
        for i, a in enumerate(A):
            if a == 0:
                continue
            # Krawtchouk K_j(i)
            kj = 0
            for l in range(0, j + 1):
                kj += (-1) ** l * comb(i, l) * comb(n - i, j - l)
            s += a * kj
        assert s % (1 << k) == 0
        B.append(s // (1 << k))
    return B


def min_distance(rows: list[int], n: int) -> int:
    """Exact minimum distance of the row space (k<=22 by enumeration, else via the dual if n-k<=22)."""
    basis, _ = rref(rows)
    k = len(basis)
    if k == 0:
        return 0
    if k <= 22:
        w = popcount_u64(span(basis)[1:])
        return int(w.min())
    dual = nullspace(basis, n)
    if len(dual) <= 22:
        Ad = weight_enumerator(dual, n)
        A = macwilliams(Ad, n, len(dual))
        for wgt in range(1, n + 1):
            if A[wgt]:
                return wgt
    raise ValueError("code too large")


def coset_leader_weights(H: list[int], n: int) -> dict[int, int]:
    """syndrome -> minimum weight of a word with that syndrome (BFS by weight). r=len(H)<=20."""
    r = len(H)
    cols = [0] * n
    for i, h in enumerate(H):
        for j in range(n):
            if (h >> j) & 1:
                cols[j] |= 1 << i
    best = {0: 0}
    frontier = {0}
    w = 0
    total = 1 << rank(H)
    while len(best) < total and w < n:
        w += 1
        nxt = set()
        for s in frontier:
            for c in cols:
                t = s ^ c
                if t not in best:
                    best[t] = w
                    nxt.add(t)
        frontier = nxt
        if not frontier:
            break
    return best


def nearest_distance_table(G: list[int], n: int) -> np.ndarray:
    """For n<=20: array d[r] = min Hamming distance from word r to the code."""
    cw = span(rref(G)[0])
    d = np.full(1 << n, n + 1, dtype=np.int16)
    d[cw.astype(np.int64)] = 0
    # BFS over the hypercube
    frontier = cw.astype(np.int64)
    w = 0
    while frontier.size:
        w += 1
        cand = (frontier[:, None] ^ (1 << np.arange(n, dtype=np.int64))[None, :]).ravel()
        cand = np.unique(cand)
        cand = cand[d[cand] > w]
        d[cand] = w
        frontier = cand
    return d


def selftest():
    # Hamming(7,4) systematic
    G = rows_from_matrix([[1, 0, 0, 0, 1, 1, 0], [0, 1, 0, 0, 1, 0, 1], [0, 0, 1, 0, 0, 1, 1], [0, 0, 0, 1, 1, 1, 1]])
    assert rank(G) == 4
    assert weight_enumerator(G, 7) == [1, 0, 0, 7, 7, 0, 0, 1]
    H = nullspace(G, 7)
    assert rank(H) == 3 and all(dot(g, h) == 0 for g in G for h in H)
    assert rowspace_equal(nullspace(H, 7), G)
    assert min_distance(G, 7) == 3
    # dual of Hamming = simplex: all non-zero words weight 4
    assert macwilliams(weight_enumerator(G, 7), 7, 4) == [1, 0, 0, 0, 7, 0, 0, 0]
    clw = coset_leader_weights(H, 7)
    assert sorted(clw.values()) == [0] + [1] * 7
    d = nearest_distance_table(G, 7)
    assert int(d.max()) == 1 and int((d == 0).sum()) == 16
    # popcount
    assert popcount_u64(np.array([0, 1, 3, 2**63 + 1], dtype=np.uint64)).tolist() == [0, 1, 2, 2]
    return True


if __name__ == "__main__":
    print(selftest())
