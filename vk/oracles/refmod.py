"""Reference demodulation for a constellation given as {label tuple -> complex point}:
nearest-point sets with ties, exact max-log LLR numerators, minimum distance."""
from __future__ import annotations

import numpy as np


class Ref:
    def __init__(self, mapping: dict):
        self.labels = [tuple(l) for l in mapping]
        self.points = np.array([complex(mapping[l]) for l in mapping], dtype=np.complex128)
        self.b = len(self.labels[0])
        self.bits = np.array(self.labels, dtype=np.int64)  # (M, b)
        d = np.abs(self.points[:, None] - self.points[None, :])
        np.fill_diagonal(d, np.inf)
        self.dmin = float(d.min()) if len(self.points) > 1 else 1.0
        self.scale = float(np.abs(self.points).max()) or 1.0
        self.index = {l: i for i, l in enumerate(self.labels)}

    def dist2(self, y: np.ndarray) -> np.ndarray:
        """(N, M) squared distances."""
        return np.abs(y[:, None] - self.points[None, :]) ** 2

    def min_dist(self, y: np.ndarray) -> np.ndarray:
        return np.sqrt(self.dist2(y).min(axis=1))

    def delta(self, y: np.ndarray) -> np.ndarray:
        """(N, b): min d^2 to points labelled 1 minus min d^2 to points labelled 0."""
        d2 = self.dist2(y)
        out = np.zeros((len(y), self.b))
        for j in range(self.b):
            m1 = self.bits[:, j] == 1
            out[:, j] = d2[:, m1].min(axis=1) - d2[:, ~m1].min(axis=1)
        return out

    def decided_distance(self, y: np.ndarray, bits: np.ndarray) -> np.ndarray:
        """distance from y to the point labelled by each row of bits (N, b)."""
        idx = np.array([self.index[tuple(int(v) for v in row)] for row in bits])
        return np.abs(y - self.points[idx])


def selftest():
    r = Ref({(0, 0): 1 + 1j, (0, 1): 1 - 1j, (1, 0): -1 + 1j, (1, 1): -1 - 1j})
    assert abs(r.dmin - 2.0) < 1e-12
    y = np.array([0.5 + 0.2j, -3 - 0.1j])
    dl = r.delta(y)
    # bit0: d1^2-d0^2 = |y+1|^2-|y-1|^2 = 4 Re y
    assert np.allclose(dl[:, 0], 4 * y.real) and np.allclose(dl[:, 1], 4 * y.imag)
    assert np.allclose(r.min_dist(y), [abs(0.5 + 0.2j - (1 + 1j)), abs(-3 - 0.1j - (-1 - 1j))])
    return True


if __name__ == "__main__":
    print(selftest())
