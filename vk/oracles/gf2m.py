"""Independent binary-polynomial and GF(2^m) arithmetic on Python ints (bit i <-> X^i).

Shares no code with kaira.algebra.  Two kinds of facts:
  * op-level: arithmetic modulo a *given* modulus (read from the library for comparison);
  * law-level: irreducibility / primitivity of a modulus, element orders from the prime
    factorisation of 2^m-1, minimal polynomials as products over cyclotomic cosets - these do
    not trust the library's modulus.
"""
from __future__ import annotations


def deg(a: int) -> int:
    return a.bit_length() - 1


def pmul(a: int, b: int) -> int:
    r = 0
    while b:
        if b & 1:
            r ^= a
        a <<= 1
        b >>= 1
    return r


def pdivmod(a: int, b: int) -> tuple[int, int]:
    if b == 0:
        raise ZeroDivisionError
    q = 0
    db = b.bit_length()
    while a.bit_length() >= db:
        s = a.bit_length() - db
        q |= 1 << s
        a ^= b << s
    return q, a


def pmod(a: int, b: int) -> int:
    return pdivmod(a, b)[1]


def pgcd(a: int, b: int) -> int:
    while b:
        a, b = b, pmod(a, b)
    return a


def plcm(a: int, b: int) -> int:
    if a == 0 or b == 0:
        return 0
    return pdivmod(pmul(a, b), pgcd(a, b))[0]


def pegcd(a: int, b: int) -> tuple[int, int, int]:
    """(g, s, t) with s*a + t*b = g."""
    s0, s1, t0, t1 = 1, 0, 0, 1
    while b:
        q, r = pdivmod(a, b)
        a, b = b, r
        s0, s1 = s1, s0 ^ pmul(q, s1)
        t0, t1 = t1, t0 ^ pmul(q, t1)
    return a, s0, t0


def mulmod(a: int, b: int, mod: int) -> int:
    return pmod(pmul(a, b), mod)


def powmod(a: int, e: int, mod: int) -> int:
    r = 1
    a = pmod(a, mod)
    while e:
        if e & 1:
            r = mulmod(r, a, mod)
        a = mulmod(a, a, mod)
        e >>= 1
    return r


def prime_factors(n: int) -> list[int]:
    out = []
    d = 2
    while d * d <= n:
        if n % d == 0:
            out.append(d)
            while n % d == 0:
                n //= d
        d += 1
    if n > 1:
        out.append(n)
    return out


def is_irreducible(f: int) -> bool:
    """Rabin's test: X^(2^m) = X mod f and gcd(X^(2^(m/p)) - X, f) = 1 for each prime p | m."""
    m = deg(f)
    if m <= 0:
        return False
    if m == 1:
        return True
    x = 2
    # x^(2^m) mod f
    y = x
    pows = {0: x}
    for i in range(1, m + 1):
        y = mulmod(y, y, f)
        pows[i] = y
    if pows[m] != pmod(x, f):
        return False
    for p in prime_factors(m):
        if pgcd(pows[m // p] ^ x, f) != 1:
            return False
    return True


def is_irreducible_trial(f: int) -> bool:
    """Trial division up to degree m/2 (used to cross-check Rabin's test on small degrees)."""
    m = deg(f)
    if m <= 0:
        return False
    for d in range(2, 1 << (m // 2 + 1)):
        if deg(d) >= 1 and deg(d) <= m // 2 and pmod(f, d) == 0:
            return False
    return True


def order(a: int, mod: int) -> int:
    """Multiplicative order of a in GF(2)[X]/(mod), mod irreducible of degree m, a != 0."""
    m = deg(mod)
    n = (1 << m) - 1
    o = n
    for p in prime_factors(n):
        while o % p == 0 and powmod(a, o // p, mod) == 1:
            o //= p
    return o


def is_primitive(f: int) -> bool:
    return is_irreducible(f) and (deg(f) == 1 and f == 3 or order(2, f) == (1 << deg(f)) - 1) if deg(f) >= 1 else False


def conjugates(a: int, mod: int) -> list[int]:
    out = [a]
    x = mulmod(a, a, mod)
    while x != a:
        out.append(x)
        x = mulmod(x, x, mod)
    return out


def minimal_polynomial(a: int, mod: int) -> int:
    """prod (X - c) over the conjugates c of a, computed in GF(2^m)[X] with coefficient lists."""
    coeffs = [1]  # coeffs[i] in GF(2^m), polynomial in X, low degree first
    for c in conjugates(a, mod):
        new = [0] * (len(coeffs) + 1)
        for i, co in enumerate(coeffs):
            new[i + 1] ^= co
            new[i] ^= mulmod(co, c, mod)
        coeffs = new
    v = 0
    for i, co in enumerate(coeffs):
        assert co in (0, 1), "minimal polynomial must have binary coefficients"
        v |= co << i
    return v


def trace(a: int, mod: int) -> int:
    m = deg(mod)
    t = 0
    x = a
    for _ in range(m):
        t ^= x
        x = mulmod(x, x, mod)
    return t


def poly_eval(p: int, x: int, mod: int) -> int:
    """Evaluate binary polynomial p at field element x."""
    r = 0
    pw = 1
    while p:
        if p & 1:
            r ^= pw
        pw = mulmod(pw, x, mod)
        p >>= 1
    return r


def cyclotomic_coset(e: int, n: int) -> list[int]:
    out = []
    x = e % n
    while x not in out:
        out.append(x)
        x = (2 * x) % n
    return out


def bch_generator(mu: int, delta: int, mod: int, alpha: int = 2) -> int:
    """lcm of the minimal polynomials of alpha^1..alpha^(delta-1) in GF(2)[X]/(mod)."""
    g = 1
    seen = set()
    n = (1 << mu) - 1
    for e in range(1, delta):
        key = min(cyclotomic_coset(e, n))
        if key in seen:
            continue
        seen.add(key)
        g = pmul(g, minimal_polynomial(powmod(alpha, e, mod), mod))
    return g


# Independent table of primitive polynomials (Lin & Costello, Appendix; Peterson & Weldon)
PRIMITIVE = {1: 0b11, 2: 0b111, 3: 0b1011, 4: 0b10011, 5: 0b100101, 6: 0b1000011, 7: 0b10001001, 8: 0b100011101, 9: 0b1000010001, 10: 0b10000001001,
             11: 0b100000000101, 12: 0b1000001010011, 13: 0b10000000011011, 14: 0b100010001000011, 15: 0b1000000000000011, 16: 0b10001000000001011}


def selftest():
    assert pmul(0b11, 0b11) == 0b101
    assert pdivmod(0b10001, 0b11) == (0b1111, 0)
    assert pgcd(pmul(0b111, 0b1011), pmul(0b111, 0b1101)) == 0b111
    g, s, t = pegcd(0b1011, 0b110)
    assert pmul(s, 0b1011) ^ pmul(t, 0b110) == g == 1
    for m, f in PRIMITIVE.items():
        assert is_irreducible(f), m
        if m <= 10:
            assert is_irreducible_trial(f), m
        assert is_primitive(f), (m, bin(f))
    assert not is_irreducible(0b101) and not is_irreducible_trial(0b101)
    assert not is_primitive(0b11111)  # x^4+x^3+x^2+x+1 irreducible, order 5
    assert is_irreducible(0b11111)
    # GF(16), x^4+x+1: log table facts
    mod = 0b10011
    assert [powmod(2, i, mod) for i in range(6)] == [1, 2, 4, 8, 3, 6]
    assert order(2, mod) == 15 and order(powmod(2, 3, mod), mod) == 5 and order(powmod(2, 5, mod), mod) == 3
    assert minimal_polynomial(2, mod) == 0b10011
    assert minimal_polynomial(powmod(2, 3, mod), mod) == 0b11111
    assert minimal_polynomial(powmod(2, 5, mod), mod) == 0b111
    assert minimal_polynomial(powmod(2, 7, mod), mod) == 0b11001
    # known BCH generators (15,11),(15,7),(15,5) and (31,21), (7,4)
    assert bch_generator(4, 3, mod) == 0b10011
    assert bch_generator(4, 5, mod) == 0b111010001
    assert bch_generator(4, 7, mod) == 0b10100110111
    assert bch_generator(3, 3, 0b1011) == 0b1011
    assert bch_generator(5, 5, 0b100101) == 0b11101101001
    assert trace(1, mod) == 0 and trace(powmod(2, 3, mod), mod) == 1
    assert poly_eval(0b10011, 2, mod) == 0
    return True


if __name__ == "__main__":
    print(selftest())
