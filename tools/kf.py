#!/venv/bin/python
"""Maintain /verif/known_findings.json by hand (never used at check run time).
usage: kf.py add <key> <what...> | kf.py fixed <property> <commit> <what...> | kf.py list"""
import json, os, sys
P = os.path.join(os.path.dirname(os.path.dirname(os.path.abspath(__file__))), "known_findings.json")
d = json.load(open(P))
cmd = sys.argv[1]
if cmd == "add":
    key = sys.argv[2]; what = " ".join(sys.argv[3:])
    prop = key.split("|")[0]
    d["findings"] = [e for e in d["findings"] if e["key"] != key]
    d["findings"].append({"property": prop, "key": key, "what": what})
    d["findings"].sort(key=lambda e: e["key"])
elif cmd == "fixed":
    d["fixed"].append(f"fixed: property={sys.argv[2]} {sys.argv[3]} {' '.join(sys.argv[4:])}")
elif cmd == "list":
    for e in d["findings"]: print(e["key"], "::", e["what"])
    for e in d["fixed"]: print(e)
json.dump(d, open(P, "w"), indent=1)
