#!/venv/bin/python
"""Run the repository's pinned test-suite (guard off) and compare with BASELINE.json's stable_pass.
usage: baseline.py [-n WORKERS] [pytest paths...]   exit 0 iff every stable_pass test that ran passed
(and, when no path filter is given, every stable_pass test was seen)."""
import json, os, subprocess, sys, tempfile, xml.etree.ElementTree as ET
args = sys.argv[1:]
workers = "12"
if args[:1] == ["-n"]:
    workers = args[1]; args = args[2:]
repo = os.environ.get("VK_REPO", "/repo")
base = json.load(open("/root/.vp/BASELINE.json"))
stable = set(base["stable_pass"])
fd, xml = tempfile.mkstemp(suffix=".xml", dir="/var/tmp"); os.close(fd)
env = dict(os.environ); env.pop("KAIRA_VERIF", None)
cmd = ["/venv/bin/python", "-m", "pytest", "-q", "-p", "no:cacheprovider", "--timeout=900", "--continue-on-collection-errors", f"--junitxml={xml}"]
if workers != "0":
    cmd += ["-n", workers]
cmd += args
p = subprocess.run(cmd, cwd=repo, env=env, capture_output=True, text=True)
print(p.stdout[-600:])
passed, failed = set(), set()
for tc in ET.parse(xml).getroot().iter("testcase"):
    name = f"{tc.get('classname')}::{tc.get('name')}"
    bad = any(ch.tag in ("failure", "error") for ch in tc)
    skipped = any(ch.tag == "skipped" for ch in tc)
    if bad: failed.add(name)
    elif not skipped: passed.add(name)
os.unlink(xml)
regress = sorted(stable & failed)
# unseeded-random tests exist in the suite (e.g. test_qam_demodulation_with_noise[16] fails ~9% of runs): re-run failures alone
still = []
for r in regress:
    cls, name = r.split("::")
    parts = cls.split(".")
    # find the file: longest prefix that is a path
    for cut in range(len(parts), 0, -1):
        path = os.path.join(repo, *parts[:cut]) + ".py"
        if os.path.exists(path):
            node = os.path.relpath(path, repo) + "::" + "::".join(parts[cut:] + [name])
            break
    ok = False
    for _ in range(2):
        q = subprocess.run(["/venv/bin/python", "-m", "pytest", "-q", "-p", "no:cacheprovider", node], cwd=repo, env=env, capture_output=True, text=True)
        if q.returncode == 0:
            ok = True
            break
    if ok:
        print("FLAKY (passed on re-run)", r)
    else:
        still.append(r)
regress = still
missing = sorted(stable - passed - failed) if not args else []
print(f"stable_pass={len(stable)} passed_now={len(stable & passed)} regressions={len(regress)} missing={len(missing)}")
for r in regress[:40]: print("REGRESSION", r)
for m in missing[:20]: print("MISSING", m)
sys.exit(1 if regress or missing else 0)
