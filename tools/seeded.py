#!/venv/bin/python
"""Run checks against a seeded fault.
usage: seeded.py <seeded-id | path/to/patch.diff> [--props C01,C02] [--tier quick] [--demo]
Makes a scratch copy of /repo's working tree under /var/tmp, applies the patch there, points the checks at it with
VK_REPO (evidence goes to a scratch VK_OUT), prints one line per check, removes the scratch copy."""
import json, os, shutil, subprocess, sys, tempfile
VERIF = os.path.dirname(os.path.dirname(os.path.abspath(__file__)))
args = sys.argv[1:]
target = args[0]
props = None; tier = "quick"; demo = False
for i, a in enumerate(args):
    if a == "--props": props = args[i + 1].split(",")
    if a == "--tier": tier = args[i + 1]
    if a == "--demo": demo = True
d = target if os.path.isfile(target) else os.path.join(VERIF, "seeded", target, "patch.diff")
meta_p = os.path.join(os.path.dirname(d), "meta.json")
if props is None and os.path.exists(meta_p):
    props = json.load(open(meta_p)).get("run_properties") or [json.load(open(meta_p))["property"]]
scratch = tempfile.mkdtemp(prefix="vk-scratch-", dir="/var/tmp")
try:
    subprocess.run(["git", "-C", "/repo", "worktree", "add", "-q", "--detach", os.path.join(scratch, "repo"), "HEAD"], check=True)
    repo = os.path.join(scratch, "repo")
    # carry over uncommitted changes of /repo's working tree, if any
    wt = subprocess.run(["git", "-C", "/repo", "diff", "HEAD"], capture_output=True, text=True).stdout
    if wt.strip():
        subprocess.run(["git", "-C", repo, "apply"], input=wt, text=True, check=True)
    r = subprocess.run(["git", "-C", repo, "apply", "--whitespace=nowarn", os.path.abspath(d)], capture_output=True, text=True)
    if r.returncode != 0:
        print("PATCH DOES NOT APPLY:", r.stderr[:500]); sys.exit(3)
    env = dict(os.environ, VK_REPO=repo, VK_OUT=os.path.join(scratch, "out"))
    if demo:
        dm = os.path.join(os.path.dirname(d), "demo.py")
        q = subprocess.run(["/venv/bin/python", dm], cwd=repo, env=dict(env, PYTHONPATH=repo), capture_output=True, text=True)
        print(f"demo on patched copy: exit {q.returncode} :: {(q.stdout + q.stderr).strip().splitlines()[-1][:200] if (q.stdout + q.stderr).strip() else ''}")
    caught = []
    for p in props or []:
        q = subprocess.run(["/venv/bin/python", "-m", "vk.run", "--property", p, "--tier", tier], cwd=VERIF, env=env, capture_output=True, text=True)
        keys = [l.strip()[:260] for l in q.stdout.splitlines() if l.strip().startswith("key=")]
        print(f"{p}: exit {q.returncode} :: {q.stdout.strip().splitlines()[-1] if q.stdout.strip() else q.stderr[-300:]}")
        for k in keys[:6]: print("    ", k)
        if q.returncode == 1: caught.append(p)
    print("CAUGHT_BY", ",".join(caught) if caught else "NONE")
finally:
    subprocess.run(["git", "-C", "/repo", "worktree", "remove", "--force", os.path.join(scratch, "repo")], capture_output=True)
    shutil.rmtree(scratch, ignore_errors=True)
