#!/venv/bin/python
"""Print the markdown table of seeded faults (from /verif/seeded/*/meta.json) used in DESIGN.md section 8."""
import glob
import json
import os
import re

ROOT = os.path.dirname(os.path.dirname(os.path.abspath(__file__)))
rows = []
for p in sorted(glob.glob(os.path.join(ROOT, "seeded", "*", "meta.json"))):
    m = json.load(open(p))
    keys = []
    for prop, r in sorted((m.get("checks_quick") or {}).items()):
        if r.get("exit") == 1 and r.get("keys"):
            k = r["keys"][0].split("|")
            keys.append(f"{prop}: {k[-2]} / {k[-1]}" if len(k) >= 3 else prop)
    rows.append((m["id"], m.get("property", "?"), re.sub(r"\s*\((?:[^()]|\([^()]*\))*\)\s*$", "", m.get("breaks") or ""), ", ".join(m.get("caught_by") or []) or "-", "; ".join(keys)[:160], (m.get("confirmed") or {}).get("pinned_suite", "?").replace("stable_pass=1848 ", "")))
print("| seeded fault | property | what it breaks | caught by (quick tier) | first clause / symptom | pinned suite under the fault |")
print("|---|---|---|---|---|---|")
for r in rows:
    print("| " + " | ".join(r) + " |")
print(f"\n{len(rows)} seeded faults; caught by at least one quick check: {sum(1 for r in rows if r[3] != '-')}")
