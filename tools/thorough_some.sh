#!/bin/bash
# usage: thorough_some.sh Cxx...   runs the thorough tier of the listed checks with VK_OUT under /var/tmp (evidence/ untouched)
for p in "$@"; do
  out=$(VK_OUT=/var/tmp/vk/out_thorough /venv/bin/python -m vk.run --property $p --tier thorough 2>&1); rc=$?
  echo "$p rc=$rc $(echo "$out" | tail -1)"
  if [ $rc -ne 0 ]; then echo "$out" | grep -E "VIOLATION|key=|INCONCLUSIVE" | cut -c1-400 | head -8; fi
done
