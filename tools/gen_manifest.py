#!/venv/bin/python
"""Regenerate /verif/MANIFEST.json from the table below (kept valid at all times)."""
import json
import os

VERIF = os.path.dirname(os.path.dirname(os.path.abspath(__file__)))
PY = "/venv/bin/python"

# id -> (technique, level text, level note, design ref)
CHECKS = {
    "C01": (
        "runtime monitoring: boundary oracle with an independent GF(2) reference model over a catalogue of real encoder objects + online encoder contracts",
        "Held on every constructed code object of the catalogue (all families x information sets x random generators) for all 2^k messages (k<=12) and single/multi-bit perturbations; "
        "a monitor decides executions, so this is exploration with exhaustive message sub-spaces, not a proof.",
        "Trusted: vk.oracles.gf2 (self-tested bit-mask arithmetic), torch, CPython. RPTU database path not driven.",
        "3 C01",
    ),
    "C03": (
        "runtime monitoring: boundary oracle - exact minimum distance / cyclic structure of the code the encoder actually emits, computed by an independent bit-mask reference (enumeration, MacWilliams), compared with what the object advertises",
        "Held (apart from listed findings) on every structured code object of the catalogue incl. every divisor of X^n+1 and every accepted BCH design distance, with the true distance computed exactly; exploration over configurations, each decided exactly.",
        "Trusted: vk.oracles.gf2 / gf2m after self-test (known weight enumerators, BCH generators, primitive polynomials). Codes with k>20 and n-k>20 skip the distance clause.",
        "3 C03",
    ),
    "C04": (
        "runtime monitoring: boundary oracle (exact equality with the fed message) over catalogue x messages x layouts x block counts, plus rejection monitor for non-multiples",
        "Held on all catalogue objects for all 2^k messages (k<=12) in 1-D/(B,.)/(B1,B2,.) layouts with 1..4 blocks; exploration with exhaustive message sub-spaces.",
        "Trusted: torch tensor equality. Non-contiguous inputs not generated; non-float32 dtypes only judged when accepted.",
        "3 C04",
    ),
    "C18": (
        "runtime monitoring: op-by-op reference-model monitor (independent bit-mask arithmetic) plus law-level oracles (irreducibility, element order, coset-product minimal polynomials) on the real algebra classes",
        "Exhaustive on polynomial pairs below degree 8, field pairs (m<=6 quick / m<=8 thorough) and triples (m<=4/5); seeded random above up to degree 200 / m=16; primitive-element order decided for every m=1..16. Exploration with exhaustive sub-spaces.",
        "Trusted: vk.oracles.gf2m after self-test against textbook primitive polynomials, the GF(16) table and known BCH generators.",
        "3 C18",
    ),
    "C02": (
        "runtime monitoring: boundary oracle on real decoders - harness-injected error patterns of weight<=t on reference-encoded codewords (exact message equality) and a reference nearest-codeword distance oracle for the complete decoders; cases run as rows of mixed batches and 1-D",
        "Held on every (code, decoder) pairing of the catalogue: all codewords x all patterns of weight<=t where that fits the budget (marked exhaustive per unit), seeded otherwise; ML clause on all 2^n words for small n. Exploration with exhaustive sub-spaces.",
        "Trusted: vk.oracles.gf2 codebook enumeration. t taken from the advertised distance; where the advertisement itself is false (RS-style, a listed finding) the attainable t is used.",
        "3 C02",
    ),
    "C05": (
        "runtime monitoring: boundary oracle (exact bit equality with the scheme's documented start-up loss) on real modulator/demodulator pairs in eval mode after reset, plus a call-history monitor that eval-mode state does not carry over",
        "Held (apart from listed pi/4-QPSK findings) for every scheme/order/labelling/normalisation built directly and through the registry on every bit group, every ordered pair/triple for schemes with memory, random sequences, 1-D and batched layouts. Exploration with exhaustive symbol sub-spaces.",
        "Trusted: the expected-bits model written from the property text (differential reference loss, OQPSK one-symbol Q delay).",
        "3 C05",
    ),
    "C14": (
        "runtime monitoring: effective-constellation oracle (driving the real modulator with all 2^b groups, comparing with published tables, energy, nearest-neighbour Gray distance) and exhaustive contracts on the Gray utilities",
        "Every scheme/order/option; every nearest-neighbour pair; Gray utilities exhaustively on n<2^16 and seeded n<2^60 in scalar/list/tensor forms. Exploration with exhaustive sub-spaces.",
        "Trusted: Python integer arithmetic for the Gray laws; float32 tolerance 1e-5 on energies.",
        "3 C14",
    ),
    "C06": (
        "runtime monitoring: reference-model oracle at the demodulator boundary - effective constellation obtained from the real modulator, nearest-point and exact max-log numerator computed independently, LLR*sigma^2/Delta required to be one positive constant",
        "Held for every scheme (differential/alternating/offset ones on their decision variable) on dense grids, decision-boundary probes, far outliers, noise variances over six decades in float/0-dim/per-symbol form. Exploration (millions of decided points per run).",
        "Trusted: vk.oracles.refmod (float64 numpy) after self-test; float32 cancellation floor 4e-6*(|y|+scale)^2 on the constancy clause.",
        "3 C06",
    ),
    "C15": (
        "runtime monitoring: producer x consumer polarity matrix - every soft demodulator and a reference producer (1-2b)*A into every LLR consumer (thresholders, utilities, soft-input decoders) with exact bit-equality oracle; adaptive thresholds judged by a monotonicity + extremes polarity oracle",
        "Held (apart from two test-pinned thresholder findings) for all producers x consumers, sequences exhaustive to length 8 (thorough) and seeded, magnitudes 1e-3..1e3. Exploration with exhaustive short-sequence sub-space.",
        "Trusted: the reference producer; the expected-bits model of C05 for schemes with start-up loss.",
        "3 C15",
    ),
    "C16": (
        "runtime monitoring: offline history checker - update/compute/reset histories replayed against an integer reference counter (exhaustive to length 5/6, seeded to length 200), partition/permutation independence, one-shot values against exact fractions",
        "All histories up to length 5 (quick) / 6 (thorough) over three unequal batches are enumerated; every permutation and 2-/3-way split of a data set; single difference at every position. Exploration with exhaustive history sub-space.",
        "Trusted: Python Fraction arithmetic; 1 ulp float32 tolerance.",
        "3 C16",
    ),
    "C17": (
        "runtime monitoring: event-log checker over recording stages plus a schedule controller that FORCES every realisable ThreadPool completion order (hooked Future.set_result confirms the order actually observed) with order-sensitive aggregators",
        "All feasible completion permutations for n<=5 branches and every worker count (each confirmed at Future.set_result), all add/remove histories to length 5, all truth assignments of <=4 branch conditions, feedback 1..5 rounds, MAC 1..4 users. Exploration, exhaustive over schedules.",
        "Trusted: the harness-side Future.set_result wrapper; FIFO dispatch of ThreadPoolExecutor for the feasibility rule. A schedule that is not realised exactly is inconclusive, never a violation.",
        "3 C17",
    ),
    "C07": (
        "runtime monitoring: statistical monitor with rigorous null-hypothesis tail bounds (exact chi-square / Gaussian / Bernstein intervals, union-bounded to 1e-9 per run) on seeded executions, plus exact per-execution clauses (verbatim noise, conversions, SNR tools vs reference, same-seed scaling)",
        "Every additive-noise channel x real/complex x power/SNR parameterisation x input powers and SNRs over several decades x shapes x dtypes, N=1e6 (quick) / 4e6 (thorough) samples per configuration. Exploration; resolution ~0.5-2% in power.",
        "Trusted: scipy.stats distribution functions, the seeded torch generator. Per-run false-alarm probability <= 1e-9 under the stated law.",
        "3 C07",
    ),
    "C12": (
        "runtime monitoring: exact support/extreme/mutation monitors on every sample plus exact-Binomial statistical monitors of rate, per-symbol rate and conditional (neighbour) rate, union-bounded to 1e-9 per run",
        "BSC/Z/BEC x 9 probabilities incl. 0 and 1 x both alphabets x dtypes x shapes; 1e6 (quick) / 4e6 (thorough) symbols per configuration. Exploration.",
        "Trusted: scipy.stats.binom; seeded generator. Bipolar BEC driven with an explicit erasure symbol.",
        "3 C12",
    ),
    "C13": (
        "runtime monitoring: exact structural monitors (block constancy incl. short last block, y=h.x+n with supplied state, shape) plus exact Gaussian/chi-square/Binomial statistical monitors on the coefficients observed through the channel boundary (x=1, zero noise)",
        "Rayleigh/Rician(K=0..100)/log-normal and convenience subclasses x coherence times incl. non-divisors x real/complex x 1-D/2-D/4-D; gain statistics on 1e6 (quick) / 4e6 (thorough) coefficients; noise stage calibrated against the faded signal. Exploration.",
        "Trusted: scipy.stats; the component-wise Gaussian tests decide unit mean-square gain and K exactly under the stated law.",
        "3 C13",
    ),
    "C08": (
        "runtime monitoring: per-item invariant monitors at the constraint boundary (power law, positive-real scaling, idempotence, scale invariance, peak/PAPR bounds, composite = sequential application) over signal families x shapes x scales",
        "Every constraint type and factory x targets over six decades x real/complex x 1-D/batch-of-1/batched/3-D/4-D x six signal families x input scales 1e-2..1e4 x random chains. Exploration (tens of thousands of items per run).",
        "Trusted: float64 re-measurement of powers. Items with negligible power and sparse signals (PAPR) are exempt as the property states; one listed finding (OFDM factory with a tight peak limit).",
        "3 C08",
    ),
    "C10": (
        "runtime monitoring: reference-model monitors at the decoder boundary - brute-force soft-ML (Wagner), brute-force bitwise posteriors and max-log marginals by codebook enumeration on cycle-free graphs (BP / min-sum), one-iteration closed form, scale invariance, clean-decode oracle",
        "Held for BP (exact/Taylor), min-sum (plain/scaled/offset/normalized), Wagner (k=1..10, thousands of real vectors each) and soft Reed-Muller on random tree / sparse LDPC codes, the bundled example and Hamming(7,4). Exploration; exactness clauses only inside the algorithms' documented ranges.",
        "Trusted: numpy float64 enumeration over the reference null space (vk.oracles.gf2).",
        "3 C10",
    ),
    "C11": (
        "runtime monitoring: reference-model monitors - own reader of the 5G reliability sequence, explicit Kronecker power and its involution to recover u from the codeword, float64 textbook successive cancellation cross-checked by brute-force marginalisation",
        "N=2..32 all k (sampled k up to 128 quick / 1024 thorough) x frozen value x interleaving x regime x user masks; all 2^k messages for small k; thousands of random LLR vectors for the SC = textbook clause with tie/saturation skips counted. Exploration with exhaustive message sub-spaces.",
        "Trusted: numpy integer linear algebra; the float64 SC reference after its own self-test unit.",
        "3 C11",
    ),
    "C09": (
        "runtime monitoring with fault injection at a stage boundary: real ChannelCodeModel chains over PerfectChannel and harness LambdaChannels that flip <=t coded bits per block or displace every symbol by <d_min/2; exact message-equality oracle; forward-hook stage-order log",
        "Hundreds of (code, decoder) x (modulator, demodulator) chains (540 quick), messages exhaustive for k<=8, every single and pair flip position for n<=15, displacement at 0.5 and 0.98 of d_min/2, batch sizes 1 and 4, hard and soft paths. Exploration / fault enumeration over small blocks.",
        "Trusted: reference true distance (vk.oracles.gf2) and effective-constellation d_min (vk.oracles.refmod). Differential schemes use a harness preamble wrapper around the real modulator.",
        "3 C09",
    ),
    "C19": (
        "runtime monitoring: autograd sanitizers (anomaly mode, in-place error trap) plus a finite-difference oracle under a frozen RNG for every analog channel and power constraint; shape / range / bandwidth-ratio / per-parameter gradient monitors on the published DeepJSCC architectures",
        "All channels x power/SNR x real/complex x 2-D/4-D, all constraints incl. active PAPR clipping (two-epsilon and discrete-state kink guards), six architectures x image sizes {16,32,48,64} x batch sizes {1,2,5}. Exploration.",
        "Trusted: central finite differences in float64 at eps=1e-3 with 5e-3 relative tolerance; 'on path' decided over three seeds.",
        "3 C19",
    ),
    "C20": (
        "runtime monitoring: differential purity monitor - batch result vs stack of batch-of-1 results under every permutation, layout-or-raise monitor, repeat / interleaved-object history monitor, input mutation sanitizer (_version + values)",
        "58 components (encoders, 20 decoders/inverses, memoryless modems hard+soft, four constraints) x batches of 1..6 in every permutation (B<=4) x four extra layouts x call histories. Exploration with exhaustive permutations for small batches.",
        "Trusted: the (1,n) batch-of-one evaluation as per-sample reference.",
        "3 C20",
    ),
}

ALL = [f"C{i:02d}" for i in range(1, 21)]
NOT_APPLICABLE_REASONS = {}


def main():
    checks = []
    for pid in ALL:
        if pid not in CHECKS:
            continue
        tech, text, note, ref = CHECKS[pid]
        checks.append(
            {
                "property_id": pid,
                "quick_cmd": f"{PY} -m vk.run --property {pid} --tier quick",
                "thorough_cmd": f"{PY} -m vk.run --property {pid} --tier thorough",
                "evidence_file": f"/verif/evidence/{pid}.json",
                "replay_cmd_template": f"{PY} -m vk.run --property {pid} --replay {{path}}",
                "engine": "vk",
                "level_claimed": {"category": "exploration", "text": text, "design_ref": f"DESIGN.md section {ref}"},
                "level_note": note,
                "technique": tech,
            }
        )
    na = [
        {"property_id": pid, "reason": NOT_APPLICABLE_REASONS.get(pid, "check not built yet in this session (work in progress; the technique applies, see DESIGN.md section 3)")}
        for pid in ALL
        if pid not in CHECKS
    ]
    manifest = {
        "version": 1,
        "setup_cmd": f"{PY} -m vk.setup",
        "hooks": {
            "guard": "KAIRA_VERIF",
            "enable": "none needed: all monitors (torch global module hooks, icontract wrappers, Future.set_result wrapper) are installed by the harness process; the repository does not read the guard",
            "baseline_off_cmd": "cd /repo && /venv/bin/python -m pytest -ra -q -p no:cacheprovider --timeout=900 --continue-on-collection-errors",
            "source_commits": [],
            "add_only": True,
        },
        "engines": [{"name": "vk", "path": "/verif/vk", "serves_properties": sorted(CHECKS), "kind_free_text": "runtime monitoring: boundary oracles with reference models, online contracts (torch hooks, icontract), offline history checkers, forced schedules, statistical monitors"}],
        "checks": checks,
        "not_applicable": na,
        "notes": "Exit 0 = held on what was observed (KNOWN-FINDING lines for listed findings), 1 = VIOLATION, 2 = INCONCLUSIVE (never folded into held). Genuine defects repaired in /repo are listed as 'fixed:' records in known_findings.json.",
    }
    with open(os.path.join(VERIF, "MANIFEST.json"), "w") as f:
        json.dump(manifest, f, indent=1)
    print(f"MANIFEST.json: {len(checks)} checks, {len(na)} not_applicable")


if __name__ == "__main__":
    main()
