#!/venv/bin/python
"""usage: seeded_meta.py <id> <breaks text> <needs text>  - fill the descriptive fields of /verif/seeded/<id>/meta.json"""
import json, os, sys
p = os.path.join(os.path.dirname(os.path.dirname(os.path.abspath(__file__))), "seeded", sys.argv[1], "meta.json")
m = json.load(open(p)); m["breaks"] = sys.argv[2]; m["needs_to_manifest"] = sys.argv[3]
json.dump(m, open(p, "w"), indent=1); print("ok", sys.argv[1])
