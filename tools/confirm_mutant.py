#!/venv/bin/python
"""Confirm a candidate seeded fault and run the checks against it.

usage: confirm_mutant.py <dir with patch.diff + demo.py> --id <seeded id> --property Cxx --props C01,C04 [--skip-suite]

Steps (all in a scratch worktree of /repo under /var/tmp, removed afterwards):
  1. demo.py on the unpatched copy must exit 0
  2. apply patch.diff; demo.py must exit non-zero
  3. the repository's pinned test-suite must still pass (tools/baseline.py against the copy)
  4. run the listed checks (quick tier) against the copy with VK_REPO / VK_OUT
If 1-3 hold, the fault is stored as /verif/seeded/<id>/ (patch.diff, demo.py, notes.md, meta.json).
"""
import json
import os
import shutil
import subprocess
import sys
import tempfile
import time

VERIF = os.path.dirname(os.path.dirname(os.path.abspath(__file__)))
args = sys.argv[1:]
src = os.path.abspath(args[0])


def opt(name, default=None):
    return args[args.index(name) + 1] if name in args else default


sid = opt("--id")
prop = opt("--property")
props = (opt("--props") or prop).split(",")
skip_suite = "--skip-suite" in args
tier = opt("--tier", "quick")
scratch = tempfile.mkdtemp(prefix="vk-confirm-", dir="/var/tmp")
repo = os.path.join(scratch, "repo")
res = {"id": sid, "property": prop, "source": src, "when": time.strftime("%Y-%m-%d %H:%M:%S")}
try:
    subprocess.run(["git", "-C", "/repo", "worktree", "add", "-q", "--detach", repo, "HEAD"], check=True)
    env = dict(os.environ, PYTHONPATH=repo, VK_REPO=repo, VK_OUT=os.path.join(scratch, "out"))
    demo = os.path.join(src, "demo.py")

    def run_demo():
        q = subprocess.run(["/venv/bin/python", demo], cwd=repo, env=env, capture_output=True, text=True, timeout=1800)
        tail = [l for l in (q.stdout + q.stderr).strip().splitlines() if "Warning" not in l and "warnings.warn" not in l]
        return q.returncode, (tail[-1][:300] if tail else "")

    rc0, t0 = run_demo()
    res["demo_unpatched"] = {"exit": rc0, "tail": t0}
    r = subprocess.run(["git", "-C", repo, "apply", "--whitespace=nowarn", os.path.join(src, "patch.diff")], capture_output=True, text=True)
    if r.returncode != 0:
        res["error"] = "patch does not apply to /repo HEAD: " + r.stderr[:300]
        print(json.dumps(res, indent=1))
        sys.exit(3)
    res["files_touched"] = subprocess.run(["git", "-C", repo, "diff", "--stat"], capture_output=True, text=True).stdout.strip().splitlines()[:-1]
    rc1, t1 = run_demo()
    res["demo_patched"] = {"exit": rc1, "tail": t1}
    if not skip_suite:
        q = subprocess.run(["/venv/bin/python", os.path.join(VERIF, "tools", "baseline.py"), "-n", "12"], env=env, capture_output=True, text=True)
        line = [l for l in q.stdout.splitlines() if l.startswith("stable_pass=")]
        res["suite"] = {"exit": q.returncode, "summary": line[-1] if line else q.stdout[-300:], "regressions": [l for l in q.stdout.splitlines() if l.startswith("REGRESSION")][:10]}
    checks = {}
    for p in props:
        q = subprocess.run(["/venv/bin/python", "-m", "vk.run", "--property", p, "--tier", tier], cwd=VERIF, env=env, capture_output=True, text=True)
        keys = [l.strip()[4:].split(" count=")[0] for l in q.stdout.splitlines() if l.strip().startswith("key=")]
        checks[p] = {"exit": q.returncode, "violation_keys": keys[:12], "n_keys": len(keys), "last": q.stdout.strip().splitlines()[-1] if q.stdout.strip() else q.stderr[-300:]}
    res["checks"] = checks
    res["caught_by"] = [p for p, v in checks.items() if v["exit"] == 1]
    confirmed = rc0 == 0 and rc1 != 0 and (skip_suite or res["suite"]["exit"] == 0)
    res["confirmed"] = confirmed
    print(json.dumps(res, indent=1))
    if confirmed and sid:
        dst = os.path.join(VERIF, "seeded", sid)
        os.makedirs(dst, exist_ok=True)
        for f in ("patch.diff", "demo.py", "notes.md"):
            if os.path.exists(os.path.join(src, f)):
                shutil.copy(os.path.join(src, f), os.path.join(dst, f))
        meta = {
            "id": sid,
            "property": prop,
            "breaks": None,
            "needs_to_manifest": None,
            "files_touched": res["files_touched"],
            "confirmed": {"demo_unpatched_exit": rc0, "demo_patched_exit": rc1, "pinned_suite": res.get("suite", {}).get("summary", "not run"), "when": res["when"], "repo_head": subprocess.run(["git", "-C", "/repo", "rev-parse", "--short", "HEAD"], capture_output=True, text=True).stdout.strip()},
            "run_properties": props,
            "checks_quick": {p: {"exit": v["exit"], "keys": v["violation_keys"][:4]} for p, v in checks.items()},
            "caught_by": res["caught_by"],
        }
        old = os.path.join(dst, "meta.json")
        if os.path.exists(old):
            prev = json.load(open(old))
            meta["breaks"] = prev.get("breaks")
            meta["needs_to_manifest"] = prev.get("needs_to_manifest")
            if skip_suite and (prev.get("confirmed") or {}).get("pinned_suite", "").startswith("stable_pass"):
                # a later re-run of the checks only: keep the suite record of the confirmation and what the checks said then
                meta["confirmed"]["pinned_suite"] = prev["confirmed"]["pinned_suite"]
                meta["at_arrival"] = prev.get("at_arrival") or {"caught_by": prev.get("caught_by"), "checks_quick": prev.get("checks_quick")}
        json.dump(meta, open(old, "w"), indent=1)
finally:
    subprocess.run(["git", "-C", "/repo", "worktree", "remove", "--force", repo], capture_output=True)
    shutil.rmtree(scratch, ignore_errors=True)
