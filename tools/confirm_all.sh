#!/bin/bash
# usage: confirm_all.sh [id-substring]   confirms every mutant of tools/mutants.tsv not yet stored under /verif/seeded (sequentially)
cd /verif
while IFS=$'\t' read -r id dir prop props breaks needs; do
  [ -z "$id" ] && continue
  if [ -n "$1" ] && [[ "$id" != *"$1"* ]]; then continue; fi
  if [ -f seeded/$id/meta.json ] && grep -q '"pinned_suite": "stable_pass' seeded/$id/meta.json; then
    /venv/bin/python tools/seeded_meta.py "$id" "$breaks" "$needs" > /dev/null; echo "$id already confirmed"; continue; fi
  /venv/bin/python tools/confirm_mutant.py "$dir" --id "$id" --property "$prop" --props "$props" > /var/tmp/vk/confirm_$id.json 2>/var/tmp/vk/confirm_$id.err
  if [ -f seeded/$id/meta.json ]; then /venv/bin/python tools/seeded_meta.py "$id" "$breaks" "$needs" > /dev/null; fi
  echo "$id: $(/venv/bin/python -c "import json;d=json.load(open('/var/tmp/vk/confirm_$id.json'));print('confirmed',d.get('confirmed'),'caught_by',d.get('caught_by'),'suite',d.get('suite',{}).get('summary'))" 2>&1 | tail -1)"
done < tools/mutants.tsv
