#!/bin/bash
# usage: sweep.sh <tier> <seed...>   runs every check for each seed, prints one line per run; leaves evidence of the last run
tier=$1; shift
cd /verif
for seed in "$@"; do
  for p in C01 C02 C03 C04 C05 C06 C07 C08 C09 C10 C11 C12 C13 C14 C15 C16 C17 C18 C19 C20; do
    out=$(VERIF_SEED=$seed /venv/bin/python -m vk.run --property $p --tier $tier 2>&1)
    rc=$?
    echo "seed=$seed $p rc=$rc $(echo "$out" | tail -1)"
    if [ $rc -ne 0 ]; then echo "$out" | grep -E "VIOLATION|key=|INCONCLUSIVE" | cut -c1-300 | head -8; fi
  done
done
